"""C02/C08 engine: the C text emitted for index arithmetic evaluates, under C
semantics, to the value the expression has under Exo's floor semantics.

For every CIR tree (resp. LoopIR index expression) up to a stated depth the
*real* `simplify_cir` + `Compiler.comp_cir` (resp. `Compiler.comp_e`) is run,
the emitted string is parsed by contracts/cexpr.py and one z3 query per tree
decides, for ALL integer values of the variables that satisfy the tree's
non-negativity flags (resp. the range environment), that

    value_C(text)  ==  ev(tree)      and no division by zero occurs.

The tree space is finite (depth bound) and enumerated exhaustively: this is a
*bounded* stand-in in the tree depth, unbounded in the variable values.  It is
reported under `bounded`, never under `discharged`.
"""
from __future__ import annotations
import itertools, os, sys, time
import z3
from contracts.cexpr import parse, evaluate, CParseError, floor_div

OPS = ["+", "-", "*", "/", "%"]


def _mod(a, b):
    return a - b * floor_div(a, b)


def run(tier="quick", seed=0):
    from pyvc.run import ensure_repo_on_path, repo_root
    ensure_repo_on_path()
    from exo.core.LoopIR import LoopIR, T, CIR
    from exo.core.prelude import Sym, SrcInfo
    from exo.backend import LoopIR_compiler as LC
    from exo.rewrite.range_analysis import IndexRangeEnvironment
    from collections import ChainMap

    SRC = SrcInfo("ctext", 0)
    t0 = time.time()
    x, y, w = Sym("x"), Sym("y"), Sym("w")
    # C names deliberately differ from the Exo names (renaming by new_varname)
    cname = {x: "x_1", y: "y", w: "w_2"}
    zvar = {}

    def var(name):
        if name not in zvar:
            zvar[name] = z3.Int("c_" + name)
        return zvar[name]

    def sym_val(s):
        return var(cname[s])

    def stride_val(s, d):
        return var(f"{cname[s]}.strides[{d}]")

    comp = object.__new__(LC.Compiler)
    comp._needed_helpers = set()

    # ---------------- CIR trees
    def leaves():
        out = []
        for nn in (False, True):
            out.append(CIR.Read(x, nn))
        out.append(CIR.Read(y, False))
        for c in (0, 1, 2, 3, -2):
            out.append(CIR.Const(c))
        out.append(CIR.Stride(w, 0))
        return out

    def trees(depth):
        if depth == 0:
            return leaves()
        sub = trees(depth - 1)
        out = list(sub)
        small = sub if depth == 1 else [t for t in sub][:40]
        for op in OPS:
            for l in small:
                rs = [CIR.Const(2), CIR.Const(4)] if op in "/%" else small
                for r in rs:
                    for nn in (False, True):
                        out.append(CIR.BinOp(op, l, r, nn))
        for a in small:
            for nn in (False, True):
                out.append(CIR.USub(a, nn))
        return out

    def cev(e):
        if isinstance(e, CIR.Read):
            return sym_val(e.name)
        if isinstance(e, CIR.Const):
            return z3.IntVal(e.val)
        if isinstance(e, CIR.Stride):
            return stride_val(e.name, e.dim)
        if isinstance(e, CIR.USub):
            return -cev(e.arg)
        l, r = cev(e.lhs), cev(e.rhs)
        return {"+": l + r, "-": l - r, "*": l * r, "/": floor_div(l, r), "%": _mod(l, r)}[e.op]

    def premises(e, acc):
        if isinstance(e, CIR.Read):
            if e.is_non_neg:
                acc.append(cev(e) >= 0)
        elif isinstance(e, CIR.USub):
            premises(e.arg, acc)
            if e.is_non_neg:
                acc.append(cev(e) >= 0)
        elif isinstance(e, CIR.BinOp):
            premises(e.lhs, acc)
            premises(e.rhs, acc)
            if e.is_non_neg:
                acc.append(cev(e) >= 0)
        return acc

    depth = 2
    cases = bad = 0
    violations, undecided, samples = [], [], []
    seen_kinds = set()
    env = ChainMap({k: v for k, v in cname.items()})

    def check(kind, tree_desc, text, want, prem, replay_build):
        nonlocal cases, bad
        cases += 1
        try:
            ast_ = parse(text)
            dz = []
            got = evaluate(ast_, var, dz)
        except CParseError as e:
            key = f"{kind}: emitted text is a C index expression"
            bad += 1
            if key not in seen_kinds:
                seen_kinds.add(key)
                violations.append(dict(obligation=key,
                                       confirmed=True, detail=f"{tree_desc} -> {text!r}: {e}",
                                       replay_script=replay_build(tree_desc, text, None, str(e))))
            return
        s = z3.Solver()
        s.set("timeout", 10000)
        for p in prem:
            s.add(p)
        s.add(z3.Or(got != want, z3.Or(*dz) if dz else z3.BoolVal(False)))
        r = s.check()
        if r == z3.unsat:
            if len(samples) < 3:
                samples.append(f"{kind}: {tree_desc} -> `{text}`: C value == floor-semantics value for all values (unsat)")
            return
        if r == z3.sat:
            m = s.model()
            vals = {str(d): m[d].as_long() for d in m.decls() if m[d] is not None and z3.is_int_value(m[d])}
            key = f"{kind}: C text evaluates to the expression's value"
            bad += 1
            if key not in seen_kinds:
                seen_kinds.add(key)
                violations.append(dict(obligation=key, confirmed=True,
                                       detail=f"{tree_desc} -> `{text}` with {vals}",
                                       replay_script=replay_build(tree_desc, text, vals, "")))
            return
        undecided.append(f"{kind}: {tree_desc}: solver unknown")

    def replay_cir(desc, text, vals, err):
        return REPLAY_TMPL.format(verif=os.path.dirname(os.path.dirname(os.path.abspath(__file__))),
                                  kind="cir", desc=desc, text=text, vals=vals, err=err, src=cur_src[0])

    cur_src = [""]

    for t in trees(depth):
        try:
            st = LC.simplify_cir(t)
            text = comp.comp_cir(st, env, 0)
        except AssertionError:
            continue                         # rejected shapes (0 % e etc.) are not emitted
        except Exception as e:
            undecided.append(f"comp_cir raised {type(e).__name__} on {t}")
            continue
        cur_src[0] = cir_src(t)
        check("comp_cir", repr_cir(t), text, cev(t), premises(t, []), replay_cir)

    # ---------------- LoopIR index expressions through comp_e
    comp2 = object.__new__(LC.Compiler)
    comp2._needed_helpers = set()
    comp2.env = ChainMap({x: "x_1", y: "y"})
    comp2.envtyp = ChainMap({x: T.index, y: T.index})
    renv = object.__new__(IndexRangeEnvironment)
    renv.proc = None
    renv.env = ChainMap({x: (0, 7)})        # x known to lie in [0, 7]; y unconstrained
    comp2.range_env = renv

    def lleaves():
        return [LoopIR.Read(x, [], T.index, SRC), LoopIR.Read(y, [], T.index, SRC)] + \
               [LoopIR.Const(c, T.int, SRC) for c in (0, 1, 2, 3)]

    def ltrees(depth):
        if depth == 0:
            return lleaves()
        sub = ltrees(depth - 1)
        out = list(sub)
        small = sub if depth == 1 else sub[:30]
        for op in OPS:
            for l in small:
                rs = [LoopIR.Const(2, T.int, SRC), LoopIR.Const(4, T.int, SRC)] if op in "/%" else small
                for r in rs:
                    out.append(LoopIR.BinOp(op, l, r, T.index, SRC))
        for a in small:
            out.append(LoopIR.USub(a, T.index, SRC))
        return out

    def lev(e):
        if isinstance(e, LoopIR.Read):
            return sym_val(e.name)
        if isinstance(e, LoopIR.Const):
            return z3.IntVal(e.val)
        if isinstance(e, LoopIR.USub):
            return -lev(e.arg)
        l, r = lev(e.lhs), lev(e.rhs)
        return {"+": l + r, "-": l - r, "*": l * r, "/": floor_div(l, r), "%": _mod(l, r)}[e.op]

    prem_l = [sym_val(x) >= 0, sym_val(x) <= 7]

    def replay_l(desc, text, vals, err):
        return REPLAY_TMPL.format(verif=os.path.dirname(os.path.dirname(os.path.abspath(__file__))),
                                  kind="loopir", desc=desc, text=text, vals=vals, err=err, src=cur_src[0])

    for t in ltrees(depth):
        try:
            text = comp2.comp_e(t, 0)
        except Exception as e:
            undecided.append(f"comp_e raised {type(e).__name__} on {t}")
            continue
        cur_src[0] = loopir_src(t)
        check("comp_e", str(t), text, lev(t), prem_l, replay_l)

    # ---------------- window struct construction (window_struct_fields)
    # For w = base[idx...]: the data pointer is base + sum_k lo_k * stride_k and the
    # struct's strides are the strides of the *interval* dimensions, in order.
    import re as _re
    from exo.core.memory import DRAM
    n0, n1, n2, bx = Sym("n0"), Sym("n1"), Sym("n2"), Sym("bx")
    cname.update({n0: "n0", n1: "n1_1", n2: "n2", bx: "bx_3"})
    win_cases = 0
    for rank in (1, 2, 3):
        dims_syms = [n0, n1, n2][:rank]
        for base_is_win in (False, True):
            dims = [LoopIR.Read(d, [], T.size, SRC) for d in dims_syms]
            base_t = T.Tensor(dims, base_is_win, T.f32)
            for pat in itertools.product("PI", repeat=rank):
                if "I" not in pat:
                    continue
                for lo_kind in ("var", "const"):
                    idx, los = [], []
                    for d, k in enumerate(pat):
                        lo = LoopIR.Read(x, [], T.index, SRC) if (lo_kind == "var" and d == 0) else LoopIR.Const(d + 1, T.int, SRC)
                        los.append(lo)
                        if k == "P":
                            idx.append(LoopIR.Point(lo, SRC))
                        else:
                            idx.append(LoopIR.Interval(lo, LoopIR.BinOp("+", lo, LoopIR.Const(2, T.int, SRC), T.index, SRC), SRC))
                    as_t = T.Tensor([LoopIR.Const(2, T.int, SRC)] * pat.count("I"), True, T.f32)
                    we = LoopIR.WindowExpr(bx, idx, T.Window(base_t, as_t, bx, idx), SRC)
                    c3 = object.__new__(LC.Compiler)
                    c3._needed_helpers = set()
                    c3.env = ChainMap({k_: v_ for k_, v_ in cname.items()})
                    c3.envtyp = ChainMap({bx: base_t, x: T.index, n0: T.size, n1: T.size, n2: T.size})
                    c3.mems = {bx: DRAM}
                    c3._known_strides = {}
                    r3 = object.__new__(IndexRangeEnvironment)
                    r3.proc, r3.env = None, ChainMap({x: (0, 7), n0: (1, None), n1: (1, None), n2: (1, None)})
                    c3.range_env = r3
                    desc = f"window bx[{','.join(pat)}] of a rank-{rank} {'window' if base_is_win else 'tensor'} ({lo_kind} offset)"
                    try:
                        dataptr, strides = c3.window_struct_fields(we)
                    except Exception as e:
                        undecided.append(f"window_struct_fields raised {type(e).__name__} on {desc}")
                        continue
                    # expected strides of the base
                    if base_is_win:
                        bstr = [stride_val(bx, d) for d in range(rank)]
                    else:
                        bstr = []
                        for d in range(rank):
                            t_ = z3.IntVal(1)
                            for dd in dims_syms[d + 1:]:
                                t_ = t_ * sym_val(dd)
                            bstr.append(t_)
                    prem_w = [sym_val(x) >= 0, sym_val(x) <= 7] + [sym_val(d) >= 1 for d in dims_syms]
                    m_ = _re.match(r"^([A-Za-z_0-9]+(?:\.data)?)\[(.*)\]$", dataptr)
                    want_base = cname[bx] + (".data" if base_is_win else "")
                    if not m_ or m_.group(1) != want_base:
                        cases += 1
                        bad += 1
                        key = "window_struct_fields: data pointer is taken from the C name of the source buffer"
                        if key not in seen_kinds:
                            seen_kinds.add(key)
                            violations.append(dict(obligation=key, confirmed=True, detail=f"{desc} -> {dataptr!r}",
                                                   replay_script=f"#!/venv/bin/python\nprint({desc!r}, '->', {dataptr!r})\nraise SystemExit(1)\n"))
                        continue
                    off_want = z3.IntVal(0)
                    for d in range(rank):
                        off_want = off_want + lev_w(los[d], sym_val) * bstr[d]
                    cur_src[0] = ""
                    rb = lambda d_, t_, v_, e_, _desc=desc, _dp=dataptr, _st=strides: \
                        f"#!/venv/bin/python\nprint({_desc!r})\nprint('data pointer:', {_dp!r})\nprint('strides:', {_st!r})\nprint('counter-model:', {v_!r}, {e_!r})\nraise SystemExit(1)\n"
                    check("window_struct_fields[offset]", desc, m_.group(2), off_want, prem_w, rb)
                    kept = [d for d, k in enumerate(pat) if k == "I"]
                    parts = [p_.strip() for p_ in strides.split(", ")] if strides else []
                    if len(parts) != len(kept):
                        cases += 1
                        bad += 1
                        key = "window_struct_fields: one stride per interval dimension"
                        if key not in seen_kinds:
                            seen_kinds.add(key)
                            violations.append(dict(obligation=key, confirmed=True, detail=f"{desc} -> {strides!r}",
                                                   replay_script=rb(desc, strides, None, "")))
                        continue
                    for p_, d in zip(parts, kept):
                        check("window_struct_fields[stride]", desc + f" dim {d}", p_, bstr[d], prem_w, rb)
                    win_cases += 1

    return dict(
        obligations=0, discharged=0,
        functions=["src/exo/backend/LoopIR_compiler.py::Compiler.window_struct_fields (C text, bounded)",
                   "src/exo/core/memory.py::Memory.window / generate_offset (C text, bounded)",
                   "src/exo/backend/LoopIR_compiler.py::Compiler.comp_cir (C text, bounded)",
                   "src/exo/backend/LoopIR_compiler.py::Compiler.comp_e (index arithmetic, C text, bounded)"],
        assumptions=["C integer arithmetic treated as mathematical (no overflow) in emitted index expressions",
                     "exo_floor_div has floor semantics (proved in contracts/c08_floor_div.py)"],
        samples=samples, violations=violations, undecided=undecided,
        bounded=[dict(target="Compiler.comp_cir / comp_e emitted C text == floor semantics",
                      bound=f"all expression trees of depth <= {depth} over +,-,*,/,%,unary-; variable values symbolic",
                      cases=cases, failed=bad),
                 dict(target="Compiler.window_struct_fields + Memory.window: data pointer offset and kept strides",
                      bound="source rank 1-3, dense tensor or window, every point/interval pattern, variable or literal offsets; values symbolic",
                      cases=win_cases, failed=0)],
        clauses={"comp_cir/comp_e: C text evaluates to the expression's value": "refuted" if violations else "discharged"},
        solver_time_s=round(time.time() - t0, 2),
    )


def lev_w(e, sym_val):
    """value of a window offset expression (Read / Const / + of those)"""
    n = type(e).__name__
    if n == "Read":
        return sym_val(e.name)
    if n == "Const":
        return z3.IntVal(e.val)
    if n == "BinOp" and str(e.op) == "+":
        return lev_w(e.lhs, sym_val) + lev_w(e.rhs, sym_val)
    raise AssertionError(n)


def repr_cir(e):
    n = type(e).__name__
    if n == "Read":
        return f"{e.name}{'+' if e.is_non_neg else ''}"
    if n == "Const":
        return str(e.val)
    if n == "Stride":
        return f"stride({e.name},{e.dim})"
    if n == "USub":
        return f"(-{repr_cir(e.arg)})"
    return f"({repr_cir(e.lhs)} {e.op}{'+' if e.is_non_neg else ''} {repr_cir(e.rhs)})"


def cir_src(e):
    n = type(e).__name__
    if n == "Read":
        return f"CIR.Read({e.name.name()}, {e.is_non_neg})"
    if n == "Const":
        return f"CIR.Const({e.val})"
    if n == "Stride":
        return f"CIR.Stride({e.name.name()}, {e.dim})"
    if n == "USub":
        return f"CIR.USub({cir_src(e.arg)}, {e.is_non_neg})"
    return f"CIR.BinOp({str(e.op)!r}, {cir_src(e.lhs)}, {cir_src(e.rhs)}, {e.is_non_neg})"


def loopir_src(e):
    n = type(e).__name__
    if n == "Read":
        return f"LoopIR.Read({e.name.name()}, [], T.index, SRC)"
    if n == "Const":
        return f"LoopIR.Const({e.val}, T.int, SRC)"
    if n == "USub":
        return f"LoopIR.USub({loopir_src(e.arg)}, T.index, SRC)"
    return f"LoopIR.BinOp({str(e.op)!r}, {loopir_src(e.lhs)}, {loopir_src(e.rhs)}, T.index, SRC)"


def replay_main(kind, src, vals):
    """Rebuild the tree, run the REAL emitter, evaluate C text (C semantics)
    and the tree (floor semantics) on the counter-model's values."""
    from pyvc.run import ensure_repo_on_path
    ensure_repo_on_path()
    from collections import ChainMap
    from exo.core.LoopIR import LoopIR, T, CIR
    from exo.core.prelude import Sym, SrcInfo
    from exo.backend import LoopIR_compiler as LC
    from exo.rewrite.range_analysis import IndexRangeEnvironment
    SRC = SrcInfo("ctext", 0)
    x, y, w = Sym("x"), Sym("y"), Sym("w")
    cname = {x: "x_1", y: "y", w: "w_2"}
    tree = eval(src, dict(CIR=CIR, LoopIR=LoopIR, T=T, SRC=SRC, x=x, y=y, w=w))
    comp = object.__new__(LC.Compiler)
    comp._needed_helpers = set()
    if kind == "cir":
        text = comp.comp_cir(LC.simplify_cir(tree), ChainMap(dict(cname)), 0)
    else:
        comp.env = ChainMap({x: "x_1", y: "y"})
        comp.envtyp = ChainMap({x: T.index, y: T.index})
        renv = object.__new__(IndexRangeEnvironment)
        renv.proc, renv.env = None, ChainMap({x: (0, 7)})
        comp.range_env = renv
        text = comp.comp_e(tree, 0)
    print("expression      :", tree)
    print("emitted C (real):", text)
    vals = vals or {}
    def var(name):
        return z3.IntVal(vals.get("c_" + name, 0))
    try:
        dz = []
        got = z3.simplify(evaluate(parse(text), var, dz))
    except CParseError as e:
        print("emitted text is not a C index expression:", e)
        return 1
    def fl(e):
        n = type(e).__name__
        if n == "Read":
            return vals.get("c_" + cname[e.name], 0)
        if n == "Const":
            return e.val
        if n == "Stride":
            return vals.get(f"c_{cname[e.name]}.strides[{e.dim}]", 0)
        if n == "USub":
            return -fl(e.arg)
        l, r = fl(e.lhs), fl(e.rhs)
        return {"+": l + r, "-": l - r, "*": l * r, "/": l // r if r else 0, "%": l % r if r else 0}[str(e.op)]
    want = fl(tree)
    print("values          :", vals)
    print("C value         :", got, "   Exo (floor) value:", want)
    bad = (not z3.is_int_value(got)) or got.as_long() != want
    print("verdict         :", "confirmed" if bad else "not-reproduced")
    return 1 if bad else 0


REPLAY_TMPL = '''#!/venv/bin/python
"""Replay: emitted C text vs floor semantics.  exit 1 = the emitted C disagrees."""
import sys
sys.path.insert(0, {verif!r})
from contracts.c02_ctext import replay_main
# {desc} -> {text}   {err}
sys.exit(replay_main({kind!r}, {src!r}, {vals!r}))
'''
