"""Ghost vocabulary of contracts/c06_primitives.py (helper, not a contract module).

C06 for the scheduling primitives: let (ir, fwd) be what a real `Do*` returns
for a procedure P.  Every statement / block / gap cursor c of P is forwarded;
`fwd(c)` must raise InvalidCursorError or be a cursor of `ir` that resolves to
the same code.

The oracle never looks at cursor paths or at the index arithmetic of the
forwarding functions.  "The same code" is decided on the two trees only:

  identity   a statement object of P that occurs in `ir` (leaf statements and
             untouched sub-trees are shared by the functional update) denotes
             itself - wherever it now sits;
  tag        every statement of the generated procedures carries its own
             SrcInfo object.  `update`, Alpha_Rename, SubstArgs and the
             wrappers the primitives build from a statement keep that object,
             so a statement of `ir` with the same class and the same SrcInfo
             is the rebuilt statement (an ancestor of an edit, a statement whose
             accesses were rewritten) or a copy of it (tail loop, unrolled body,
             fission, specialisation).

A cursor may be forwarded to the identical object if there is one, else to a
tagged image; if the statement has no image at all it must be reported invalid.
"""
from __future__ import annotations
import types
from pyvc import sym as S
from contracts.cursor_ghost import stmt_lists, all_stmts, all_blocks, show_path, Runner
from contracts import trace_ghost as TG
from contracts.trace_ghost import rd, cst, bop
from exo.core.LoopIR import LoopIR, T
from exo.core.prelude import Sym, SrcInfo
from exo.core.memory import DRAM
from exo.core import internal_cursors as IC
from exo.core.internal_cursors import InvalidCursorError, GapType
from exo.rewrite.new_eff import SchedulingError

ESRC = SrcInfo("expr", 0)


# ----------------------------------------------------------------------------
# statements with an identity (one SrcInfo object per statement)

def si(label):
    return SrcInfo(label, 0)


def label_of(s):
    return getattr(getattr(s, "srcinfo", None), "filename", "?")


def fconst(v):
    return LoopIR.Const(v, T.f32, ESRC)


def rdbuf(buf, idx):
    return LoopIR.Read(buf, list(idx), T.f32, ESRC)


def for_(label, it, lo, hi, body):
    return LoopIR.For(it, lo, hi, list(body), LoopIR.Seq(), si(label))


def if_(label, cond, body, orelse=()):
    return LoopIR.If(cond, list(body), list(orelse), si(label))


def assign(label, buf, idx, rhs=1.0):
    return LoopIR.Assign(buf, T.f32, list(idx), rhs if isinstance(rhs, LoopIR.expr) else fconst(rhs), si(label))


def reduce_(label, buf, idx, rhs=1.0):
    return LoopIR.Reduce(buf, T.f32, list(idx), rhs if isinstance(rhs, LoopIR.expr) else fconst(rhs), si(label))


def alloc(label, sym, dims=()):
    t = T.Tensor([d if isinstance(d, LoopIR.expr) else cst(d) for d in dims], False, T.f32) if dims else T.f32
    return LoopIR.Alloc(sym, t, DRAM, si(label))


def pass_(label):
    return LoopIR.Pass(si(label))


def call_(label, f, args):
    return LoopIR.Call(f, list(args), si(label))


# ----------------------------------------------------------------------------
# the procedure P around the statements a primitive is applied to

class World:
    """P = pre0; pre1; <focus...>; post0; post1 - at the top level of the procedure, or inside a loop / the
    else branch of an if between two further statements (`ctx`)."""

    def __init__(self, g):
        self.g = g
        self.N, self.M = Sym("n"), Sym("m")
        self.X, self.Y, self.W, self.Z = Sym("x"), Sym("y"), Sym("w"), Sym("z")
        self.I, self.J, self.O = Sym("i"), Sym("j"), Sym("o")
        self.extra_args = []
        self.preds = []

    def lit(self, name):
        return cst(self.g.int(name))

    def nread(self):
        return rd(self.N, T.size)

    def cond(self, name):
        """a guard that does not depend on program state: n < c (c a symbolic literal)"""
        return bop("<", self.nread(), self.lit(name))

    def close(self, focus, ctx="top", xdims=1, npre=2, npost=2):
        pre = [assign(f"pre{k}", self.Z, [cst(k)], float(k)) for k in range(npre)]
        post = [assign(f"post{k}", self.Z, [cst(4 + k)], float(4 + k)) for k in range(npost)]
        self.focus = list(focus)
        inner = pre + self.focus + post
        if ctx == "top":
            body = inner
        elif ctx == "in_for":
            body = [assign("top", self.Z, [cst(6)], 6.0), for_("ctx", self.O, cst(0), self.nread(), inner),
                    assign("bot", self.Z, [cst(7)], 7.0)]
        elif ctx == "in_orelse":
            body = [assign("top", self.Z, [cst(6)], 6.0),
                    if_("ctx", bop("<", self.nread(), cst(3)), [assign("then", self.W, [cst(9)], 9.0)], inner),
                    assign("bot", self.Z, [cst(7)], 7.0)]
        else:
            raise AssertionError(ctx)
        self.ctx = ctx
        args = [TG.size_arg(self.N), LoopIR.fnarg(self.M, T.index, None, ESRC),
                TG.buf_arg(self.X, [16] * xdims), TG.buf_arg(self.Y, [16] * xdims), TG.buf_arg(self.W, [16]),
                TG.buf_arg(self.Z, [8])] + list(self.extra_args)
        self.proc = LoopIR.proc("p", args, list(self.preds), body, None, ESRC)
        self.root = IC.Cursor.create(self.proc)
        self.old = Index(self.proc)
        return self

    def cur(self, stmt):
        """the real cursor to a statement of P"""
        return node_cursor(self.root, self.old.path_of(stmt))

    def stmt(self, label):
        for _, s in self.old.stmts:
            if label_of(s) == label:
                return s
        raise KeyError(label)


def node_cursor(rootc, path):
    c = rootc
    for attr, i in path:
        c = c._child_block(attr)[i]
    return c


class Index:
    """statements of one procedure: pre-order list, paths, parents"""

    def __init__(self, proc):
        self.proc = proc
        self.stmts = all_stmts(proc)
        self.paths = {}
        for p, s in self.stmts:
            self.paths.setdefault(id(s), []).append(p)

    def path_of(self, s):
        return self.paths[id(s)][0]

    def has(self, s):
        return id(s) in self.paths

    def parent(self, s):
        p = self.path_of(s)
        if len(p) <= 1:
            return None
        return strict_resolve(self.proc, p[:-1])

    def ancestors(self, s):
        p = self.path_of(s)
        return [strict_resolve(self.proc, p[:k]) for k in range(1, len(p))]

    def descendants(self, s):
        out = []
        for _, l in stmt_lists(s):
            for x in l:
                out.append(x)
                out += self.descendants(x)
        return out

    def family(self, stmts):
        """the statements, everything below them and everything above them"""
        out = []
        for s in stmts:
            out += [s] + self.descendants(s) + self.ancestors(s)
        return out


def strict_resolve(root, path):
    """the node a cursor path denotes, or None when it dangles (missing attribute, index outside the list -
    a negative index is outside)"""
    n = root
    for attr, i in path:
        if isinstance(n, list) or not hasattr(n, attr):
            return None
        n = getattr(n, attr)
        if i is None:
            if isinstance(n, list):
                return None
            continue
        if not isinstance(n, list) or isinstance(i, bool) or not isinstance(i, int) or not (0 <= i < len(n)):
            return None
        n = n[i]
    return n


def in_list(x, xs):
    return any(x is y for y in xs)


# ----------------------------------------------------------------------------
# probes: every statement / gap / block cursor of P, a foreign cursor

class Probe(types.SimpleNamespace):
    """kind: node | gap | block | foreign;  cur: the cursor;  stmts: the statement(s) it denotes in P"""


def probes_of(w):
    rootc, proc = w.root, w.proc
    out = []
    for p, s in w.old.stmts:
        out.append(Probe(kind="node", cur=node_cursor(rootc, p), stmts=[s]))
        out.append(Probe(kind="gap", cur=node_cursor(rootc, p).before(), stmts=[s]))
        out.append(Probe(kind="gap", cur=node_cursor(rootc, p).after(), stmts=[s]))
    for p, attr, lst in all_blocks(proc):
        anchor = node_cursor(rootc, p)
        for lo in range(len(lst)):
            for hi in range(lo + 1, len(lst) + 1):
                out.append(Probe(kind="block", cur=anchor._child_block(attr)[lo:hi], stmts=list(lst[lo:hi])))
    # a procedure with the very same body (so that every path resolves) but another root object
    other = IC.Cursor.create(proc.update(name="other"))
    out.append(Probe(kind="foreign", cur=other.body()[0], stmts=[]))
    out.append(Probe(kind="foreign", cur=other.body()[0].after(), stmts=[]))
    out.append(Probe(kind="foreign", cur=other.body()[0:1], stmts=[]))
    return out


# ----------------------------------------------------------------------------
# running a primitive and forwarding every probe

class Rec(types.SimpleNamespace):
    """exc: what the primitive raised (or None); ir, fwd: what it returned; results: [(probe, out, exc)]"""

    def __str__(self):
        if self.exc is not None:
            return f"primitive raised {type(self.exc).__name__}: {self.exc}"
        lines = ["P  = " + show_proc(self.w.proc), "ir = " + show_proc(self.ir)]
        for pr, out, exc in self.results:
            tgt = f"raised {type(exc).__name__}" if exc is not None else show_fwd(self, out)
            mark = ""
            if pr.kind == "node" and pr.stmts:
                if exc is None and node_resolves(self, out) and not node_same(self, pr.stmts[0], out):
                    mark = "      <== NOT THE SAME STATEMENT"
                elif exc is not None and images(self, pr.stmts[0])[0]:
                    mark = "      (the statement is in ir: " + ", ".join(
                        show_path(p) for p, n in self.new.stmts if in_list(n, images(self, pr.stmts[0])[0])) + ")"
            lines.append(f"    fwd({show_fwd_src(pr)}) = {tgt}{mark}")
        return "\n".join(lines)


def show_proc(p):
    def rec(x):
        nm = label_of(x) if not isinstance(x, LoopIR.proc) else "proc"
        if isinstance(x, LoopIR.stmt) and label_of(x) in ("expr", "?", "ghost"):
            nm = "<" + type(x).__name__ + ">"
        ls = stmt_lists(x)
        if not ls:
            return nm
        return nm + "{" + "; ".join(f"{a}: [" + ", ".join(rec(y) for y in l) + "]" for a, l in ls) + "}"
    return rec(p)


def show_fwd_src(pr):
    c = pr.cur
    if isinstance(c, IC.Node):
        return f"node {label_of(pr.stmts[0]) if pr.stmts else show_path(c._path)}"
    if isinstance(c, IC.Gap):
        return f"gap {c._type.name} {label_of(pr.stmts[0]) if pr.stmts else show_path(c._anchor._path)}"
    return "block [" + ", ".join(label_of(s) for s in pr.stmts) + "]" if pr.stmts else \
        f"block {show_path(c._anchor._path)}.{c._attr}[{c._range.start}:{c._range.stop}]"


def show_fwd(rec, out):
    if isinstance(out, IC.Node):
        n = strict_resolve(out._root, out._path)
        what = "DANGLING" if n is None else (label_of(n) if isinstance(n, LoopIR.stmt) else type(n).__name__)
        root = "" if out._root is rec.ir else " (ROOT IS NOT ir)"
        return f"node {show_path(out._path)} -> {what}{root}"
    if isinstance(out, IC.Gap):
        return f"gap {out._type.name} of " + show_fwd(rec, out._anchor)
    if isinstance(out, IC.Block):
        an = strict_resolve(out._root, out._anchor._path)
        lst = getattr(an, out._attr, None) if an is not None else None
        if not isinstance(lst, list):
            what = "DANGLING"
        else:
            what = "[" + ", ".join(label_of(x) for x in lst[out._range.start:out._range.stop]) + "]"
        root = "" if out._root is rec.ir else " (ROOT IS NOT ir)"
        return f"block {show_path(out._anchor._path)}.{out._attr}[{out._range.start}:{out._range.stop}] -> {what}{root}"
    return repr(out)


STATS = {}        # qualname -> [primitive succeeded, primitive refused]   (debugging aid: non-vacuity)


def _composition(f):
    """(outer, inner) when f is an interpreted closure whose *source text* is `lambda x: a(b(x))` with a, b free
    variables - what the real `_compose` returns.  The shape is read from the AST pyvc parsed from the repository
    (so a change of `_compose` is seen); evaluating `a(b(x))` by applying b, then a, is exactly what the
    interpreter would do, without its per-call overhead on chains of 10-30 compositions."""
    import ast
    from pyvc.interp import IFunc
    if not isinstance(f, IFunc) or not isinstance(f.node, ast.Lambda) or f.frame is None:
        return None
    a = f.node.args
    if a.posonlyargs or a.kwonlyargs or a.vararg or a.kwarg or a.defaults or len(a.args) != 1:
        return None
    x = a.args[0].arg
    b = f.node.body
    if not (isinstance(b, ast.Call) and isinstance(b.func, ast.Name) and not b.keywords and len(b.args) == 1):
        return None
    i = b.args[0]
    if not (isinstance(i, ast.Call) and isinstance(i.func, ast.Name) and not i.keywords and len(i.args) == 1
            and isinstance(i.args[0], ast.Name) and i.args[0].id == x):
        return None
    if x in (b.func.id, i.func.id):
        return None
    try:
        return f.frame.lookup(b.func.id), f.frame.lookup(i.func.id)
    except Exception:
        return None


class Steps:
    """forwarding through several provenance steps, oldest first (what Procedure.forward applies)"""
    def __init__(self, fns):
        self.fns = list(fns)


def apply_fwd(R, f, cur):
    """-> (forwarded cursor, exception)"""
    if isinstance(f, Steps):
        exc = None
        for fn in f.fns:
            cur, exc = apply_fwd(R, fn, cur)
            if exc is not None:
                return None, exc
        return cur, None
    comp = _composition(f) if R.it is not None else None
    if comp is None:
        return R.call(f, cur)
    outer, inner = comp
    mid, exc = apply_fwd(R, inner, cur)
    if exc is not None:
        return None, exc
    return apply_fwd(R, outer, mid)


def drive(R, fn, a, call):
    w = a.ghost.w
    rec = Rec(exc=None, ir=None, fwd=None, results=[], w=w)
    res, exc = call(R, fn, a)
    st = STATS.setdefault(getattr(fn, "__qualname__", "?"), [0, 0])
    st[1 if exc is not None else 0] += 1
    if exc is not None:
        rec.exc = exc
        return rec
    rec.raw = res
    rec.ir, rec.fwd = res[0], res[1]
    if not isinstance(rec.ir, LoopIR.proc):
        rec.exc = AssertionError("the primitive did not return a procedure")
        return rec
    rec.new = Index(rec.ir)
    probes = probes_of(w)
    if rec.ir is not w.proc:
        # a cursor of the *result* is not a cursor of P
        r2 = IC.Cursor.create(rec.ir)
        probes.append(Probe(kind="foreign", cur=r2.body()[0], stmts=[]))
    for pr in probes:
        out, exc = apply_fwd(R, rec.fwd, pr.cur)
        rec.results.append((pr, out, exc))
    return rec


# ----------------------------------------------------------------------------
# the oracle

def denotes(n, s):
    return n is s or (type(n) is type(s) and getattr(n, "srcinfo", None) is s.srcinfo)


def images(rec, s):
    """-> (nodes of ir that denote s, identical?)"""
    ident = [n for _, n in rec.new.stmts if n is s]
    if ident:
        return ident, True
    return [n for _, n in rec.new.stmts if denotes(n, s)], False


def old_content(rec, x):
    """statements of P denoted by a statement of ir: itself / the statement it is the image of; for a statement
    the primitive created (wrapper, guard) the old statements directly below it"""
    for n, olds in getattr(rec, "stands_for", ()):
        if n is x:
            return list(olds)
    hits = [s for _, s in rec.w.old.stmts if denotes(x, s)]
    if hits:
        return hits
    out = []
    for _, l in stmt_lists(x):
        for y in l:
            out += old_content(rec, y)
    return out


def node_resolves(rec, out):
    return isinstance(out, IC.Node) and out._root is rec.ir and isinstance(strict_resolve(rec.ir, out._path), LoopIR.stmt)


def node_same(rec, s, out):
    """(given that it resolves) the forwarded node cursor denotes s"""
    n = strict_resolve(rec.ir, out._path)
    return in_list(n, images(rec, s)[0])


def block_resolves(rec, out):
    if not (isinstance(out, IC.Block) and out._root is rec.ir and out._anchor._root is rec.ir):
        return False
    an = strict_resolve(rec.ir, out._anchor._path)
    if an is None:
        return False
    lst = getattr(an, out._attr, None)
    a2, b2 = out._range.start, out._range.stop
    return isinstance(lst, list) and 0 <= a2 <= b2 <= len(lst) and out._range.step == 1


def block_stmts(rec, out):
    an = strict_resolve(rec.ir, out._anchor._path)
    return getattr(an, out._attr)[out._range.start:out._range.stop]


def block_nothing_foreign(rec, members, out, relocated=()):
    """every statement of the forwarded block is (the image of) a member of the old block, of a statement
    below / above a member that the rewrite interchanged with it, or a statement the primitive created.
    Reading shared with contracts/c06_forwarding.py (moves): a statement the primitive itself relocated
    (`relocated`: the statements it is applied to, what is above and below them) may end up strictly inside the
    block - never at its ends; a statement the rewrite does not touch never enters a block."""
    closure = rec.w.old.family(members)
    got = block_stmts(rec, out)
    for k, x in enumerate(got):
        interior = 0 < k < len(got) - 1
        merged = [olds for n, olds in getattr(rec, "stands_for", ()) if n is x]
        if merged:
            # a statement built out of several statements of P stands for each of them
            if not any(in_list(wst, closure) for wst in merged[0]):
                return False
            continue
        for wst in old_content(rec, x):
            if in_list(wst, closure):
                continue
            if interior and in_list(wst, relocated):
                continue
            return False
    return True


def block_exact(rec, members, out):
    """the forwarded block consists of exactly the members (as objects / images), in order; statements the
    primitive created may stand strictly inside it (reading shared with contracts/c06_forwarding.py: inserts)"""
    got = block_stmts(rec, out)
    got = [x for k, x in enumerate(got) if not (0 < k < len(got) - 1 and not old_content(rec, x))]
    return len(got) == len(members) and all(denotes(x, s) and in_list(x, images(rec, s)[0])
                                            for x, s in zip(got, members))


# ----------------------------------------------------------------------------
# Check_* side conditions: modular callees (either outcome), replayed natively by stubs that follow the path

CHECK_NAMES = ("Check_IsPositiveExpr", "Check_IsNonNegativeExpr", "Check_CompareExprs", "Check_ExprBound",
               "Check_IsDivisible", "Check_ExprEqvInContext", "Check_IsIdempotent", "Check_FissionLoop",
               "Check_ReorderStmts", "Check_ReorderLoops", "Check_IsDeadAfter", "Check_Bounds", "Check_Aliasing",
               "Check_Access_In_Window", "Check_BufferReduceOnly", "Check_DeleteConfigWrite")


def check_outcome(g, nm):
    """which way a side-condition check goes does not matter for C06: every outcome is explored, no fact is
    assumed.  -> the value returned, or raises SchedulingError"""
    pol = g.ghost.get("check_policy", {}).get(nm)
    if pol == "succeeds":
        # a check whose failure makes the primitive refuse (SchedulingError) at once: nothing to forward
        return frozenset() if nm == "Check_DeleteConfigWrite" else None
    if pol == "once per path":
        # one outcome for all calls of this check on a path (keeps the number of paths of stage_mem small)
        memo = g.ghost.setdefault("check_memo", {})
        if nm == "Check_Access_In_Window":
            if nm not in memo:
                memo[nm] = [g.choose(["all inside", "first inside", "all outside", "fails"], nm), 0]
            k, n = memo[nm]
            memo[nm][1] += 1
            if k == "fails":
                raise TG.sched_error(f"{nm} failed")
            return k == "all inside" or (k == "first inside" and n == 0)
        if nm not in memo:
            memo[nm] = g.choose(["succeeds", "fails"], nm)
        if memo[nm] == "fails":
            raise TG.sched_error(f"{nm} failed")
        return None
    if nm == "Check_Access_In_Window":
        k = g.choose(["inside", "outside", "fails"], nm)
        if k == "fails":
            raise TG.sched_error(f"{nm} failed")
        return k == "inside"
    if g.choose(["succeeds", "fails"], nm) == "fails":
        raise TG.sched_error(f"{nm} failed")
    return None


def _check_callee(nm):
    from pyvc.interp import ProgExc

    def result(g, a):
        try:
            return check_outcome(g, nm)
        except SchedulingError as e:
            raise ProgExc(e)
    return dict(result=result, ensures=None, assumed=True,
                note=f"{nm}: any outcome (raises SchedulingError or returns)")


ALL_CHECKS = {nm: _check_callee(nm) for nm in CHECK_NAMES}


def use_checks(c, *names, both=(), once=()):
    """`names`: checks of the primitive.  Only the outcomes after which the primitive goes on are explored: a check
    named in `both` is one whose failure the primitive catches and handles (it is explored with both outcomes, per
    call - or, if also in `once`, with one outcome per path); the others always succeed (their failure is an
    immediate SchedulingError)."""
    for n in names:
        c.callee(n, **ALL_CHECKS[n])
    c._checks = list(getattr(c, "_checks", [])) + list(names)
    pol = {n: "succeeds" for n in names if n not in both}
    pol.update({n: "once per path" for n in once})
    c._check_policy = {**getattr(c, "_check_policy", {}), **pol}
    prev = c.setup

    def setup(g):
        if prev:
            prev(g)
        g.ghost["check_policy"] = dict(c._check_policy)
        g.ghost.pop("check_memo", None)
    c.setup = setup


def native_checks(c, g, modules):
    """context manager: the Check_* functions of `modules` are replaced by stubs that take the outcome the
    replayed path took (g.choose replays the recorded structural choices in order)"""
    import contextlib

    @contextlib.contextmanager
    def cm():
        saved = []
        for mod in modules:
            for nm in getattr(c, "_checks", []):
                if not hasattr(mod, nm):
                    continue

                def stub(*args, nm=nm, **kw):
                    return check_outcome(g, nm)
                saved.append((mod, nm, getattr(mod, nm)))
                setattr(mod, nm, stub)
        try:
            yield
        finally:
            for mod, nm, real in saved:
                setattr(mod, nm, real)
    return cm()
