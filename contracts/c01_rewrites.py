"""C01 (a) - loop-restructuring rewrites preserve the iteration trace.

Targets: the `Do*` functions of src/exo/rewrite/LoopIR_scheduling.py.  Each is
interpreted by pyvc on a *real* little procedure

    def p(n: size, m: index, x: f32[..], y: f32[..], z: f32[2]):
        assert lo <= hi                      # front-end rule, see below
        z[0] = 0.0                           # sibling before
        for i in seq(LO, HI): x[i] += 1.0    # the statement(s) being rewritten
        z[1] = 5.0                           # sibling after

whose bounds LO / HI are a literal with a *symbolic* value or an argument, with
the real cursor library, pattern matcher, Alpha_Rename and SubstArgs running
natively (assumed / verified elsewhere: C06, C16).  The `Check_*` side
conditions are modular callees: a check either raises SchedulingError or returns,
and then the fact it was asked about holds (contracts/trace_ghost.py CHECKS).

Oracle (property text: "leaves exactly the same final contents ... for every
input that satisfies the original procedure's assertions"): the sequential
semantics of for / if / blocks.  The body `x[i] += 1.0` stands for an arbitrary
statement that depends on the iterator; what is compared is the *iteration
trace* - the sequence of (statement, iterator values) executions:
  exact    same sequence (divide, cut, shift, join, product, unroll, dead code,
           fuse_if)
  per-tag  each statement keeps its own sequence; interleaving with the other
           statements may change only if the licensing Check_* call was made on
           exactly the statements that are interleaved (fuse, fission, reorder)
  bag      each statement runs for the same multiset of iterator tuples and the
           licensing call was made (loop interchange in lift_scope)
  set      each statement runs for the same set of iterator values (possibly a
           different number of times) and Check_IsIdempotent was called on it
           (remove_loop, add_loop, divide_with_recompute)

Precondition on inputs ("valid input"): every loop has lo <= hi for every
admitted argument value - src/exo/frontend/boundscheck.py (CheckBounds.map_stmts:
`check_non_negative(hi - lo)`) rejects any other procedure.

Limits (reported in the evidence): the rewritten statements sit at the top level
of the procedure between two siblings; bodies are one or two observable
statements; bounds do not mention enclosing iterators; `unroll` is checked for
trip counts 0..3 (symbolic lower bound).
"""
from __future__ import annotations
from pyvc.contract import contract
from pyvc import sym as S
from pyvc.sym import And, Or, Not, Implies, Ite
from contracts.ghost import rho, SRC
from contracts import trace_ghost as TG
from contracts.trace_ghost import (rd, cst, bop, for_, if_, assign, reduce_, evx, events, inst, dom, val,
                                   before, contained, increasing, default_witness, run_trace, counts,
                                   per_tag, use_checks, calls, lex_lt, tup_eq)
from exo.core.LoopIR import LoopIR, T
from exo.core.prelude import Sym
from exo.core import internal_cursors as ic
from exo.rewrite import LoopIR_scheduling as LS
from exo.rewrite.new_eff import SchedulingError

F = "src/exo/rewrite/LoopIR_scheduling.py"
TG.checker_shims()


def _preload_sources():
    """parse, once in the parent process, the repository files whose functions the interpreter wraps (callee
    signatures of new_eff.py, Sym / Config helpers); otherwise every pool worker parses them again"""
    import os
    from pyvc.run import SHARED_INDEX, repo_root
    for rel in ("src/exo/rewrite/LoopIR_scheduling.py", "src/exo/rewrite/new_eff.py", "src/exo/core/prelude.py",
                "src/exo/core/configs.py"):
        try:
            SHARED_INDEX.load(os.path.join(repo_root(), rel))
        except Exception:
            pass

_preload_sources()
RLIMIT = 40_000_000     # z3 resource limit per check instead of a wall-clock timer thread per check

NATIVE_MODULES = ("exo.core.internal_cursors", "exo.core.LoopIR", "exo.frontend.pattern_match")

ASSUMPTIONS = [
    "C01(a): exo.core.internal_cursors (edit + forwarding primitives) behaves as its C06 contracts state; it runs "
    "natively inside the interpreted Do* functions",
    "C01(a): Alpha_Rename(b).result() is b with binders renamed consistently; SubstArgs(b, env).result() is b with "
    "reads of env's symbols replaced; match_pattern('sym[_]') returns every read of sym below the cursor; "
    "LoopIR_Compare.match_stmts accepts only bodies equal up to the iterator name (run natively, not verified)",
    "C01(a): a Check_* call that returns establishes the fact it was asked about for every input admitted by the "
    "procedure's assertions (effect extraction, ContextExtraction, SMT lowering: see c01_conditions / c01_smt)",
    "C01(a): valid input = every loop has lo <= hi (CheckBounds rejects other procedures); the body of the rewritten "
    "loop is one observable statement `x[i] += c` / `x[i] = c` standing for an arbitrary statement that uses the "
    "iterator; rewritten statements are at the top level of the procedure, between two sibling statements",
    "C01(a) bounds of the proof: loop bounds, quotients, cut points, shifts, strides are symbolic (unbounded); the "
    "blocks a rewrite touches have 1-3 statements; nests are at most 2 deep; unroll_loop is checked for trip counts "
    "0..3; bounds are literals or arguments (never expressions over enclosing iterators); guards are `n < c` or "
    "`Cfg.a == c`; paths with unsafe_disable_check(s)=True are excluded (documented as unsafe)",
]


# ----------------------------------------------------------------------------
# worlds

class World:
    pass


def g_bound(g, w, name, kinds=None, argtype="index"):
    """a loop bound: a literal with a symbolic value, or an argument.  The kind is chosen once per procedure
    (all bounds literals / all bounds arguments) unless `kinds` asks for an independent choice: only code that
    inspects the constructor of a bound (unroll, mult_loops, divide_expr) can tell mixed shapes apart."""
    if kinds is None:
        if w.kind is None:
            w.kind = g.choose(["const", "arg"], "bounds.kind")
        k = w.kind
    else:
        k = g.choose(list(kinds), name + ".kind")
    if k == "const":
        return cst(g.int(name))
    s = Sym(name)
    if argtype == "size":
        w.sizes.append(s)
        return rd(s, T.size)
    w.idxargs.append(s)
    return rd(s, T.index)


def new_world(g):
    w = World()
    w.sizes, w.idxargs, w.kind = [], [], None
    w.X, w.Y, w.Z, w.W = Sym("x"), Sym("y"), Sym("z"), Sym("w")
    w.I, w.J = Sym("i"), Sym("j")
    w.pre = assign(w.Z, [cst(0)], 0.0)
    w.post = assign(w.Z, [cst(1)], 5.0)
    return w


def loops_of(stmts):
    out = []
    for s in stmts:
        if isinstance(s, LoopIR.For):
            out.append(s)
            out += loops_of(s.body)
        elif isinstance(s, LoopIR.If):
            out += loops_of(s.body) + loops_of(s.orelse)
    return out


def close_world(g, w, focus, xdims=1, facts=()):
    """build the procedure around the statements `focus`.  `facts` are extra assertions of the procedure
    (used when the bounds are arguments): they state what the side-condition checks of the rewrite will ask,
    so that the *real* checks can succeed in the native replay; on the symbolic side they only remove inputs
    on which a check that succeeded would have been wrong."""
    w.focus = list(focus)
    w.facts = [f for f in facts if not all(isinstance(x, LoopIR.Const) for x in (f.lhs, f.rhs))]
    preds = list(w.facts)
    for l in loops_of(w.focus):
        if not (isinstance(l.lo, LoopIR.Const) and isinstance(l.hi, LoopIR.Const)):
            preds.append(bop("<=", l.lo, l.hi))
    args = [TG.size_arg(s) for s in w.sizes] + [LoopIR.fnarg(s, T.index, None, SRC) for s in w.idxargs]
    args += [TG.buf_arg(w.X, [16] * xdims), TG.buf_arg(w.Y, [16] * xdims), TG.buf_arg(w.W, [16]),
             TG.buf_arg(w.Z, [2])]
    w.proc = TG.mk_proc(args, preds, [w.pre] + w.focus + [w.post])
    w.root = ic.Cursor.create(w.proc)
    w.cur = [w.root.body()[1 + k] for k in range(len(w.focus))]
    w.in_events = events(w.focus)
    return w


def valid_input(a):
    w = a.ghost.w
    cs = [rho(s) > 0 for s in w.sizes]
    cs += [evx(l.lo) <= evx(l.hi) for l in loops_of(w.focus)]
    cs += [evx(f) for f in w.facts]
    return And(cs)


def out_focus(a):
    """the rewritten statements: what now stands between the two siblings"""
    ir = a.result[0]
    return list(ir.body[1:-1])


# ----------------------------------------------------------------------------
# clause installers

def _same_node(x, y):
    return x is y


def install(c, mode, wit_out, license=None, wit_in=None, extra=None):
    """mode: exact | per_tag | bag | set (module docstring).  wit_out(a, v, out_events) lists candidate
    output instances (event, env) observing the value tuple v.  license(a) must hold in the non-exact modes."""
    for m in NATIVE_MODULES:
        c.native_modules.add(m)
    c.requires(valid_input)
    c.rlimit = RLIMIT
    use_checks(c, *TG.CHECKS)       # whichever side-condition check the function reaches is modular
    c.raises(SchedulingError, label="SchedulingError is the only way to refuse")

    @c.ensures("signature, assertions and sibling statements are untouched")
    def _(a):
        w, ir = a.ghost.w, a.result[0]
        return (isinstance(ir, LoopIR.proc) and ir.args == w.proc.args and ir.preds == w.proc.preds
                and len(ir.body) >= 2 and ir.body[0] is w.pre and ir.body[-1] is w.post)

    @c.ensures("every execution in the output is an execution of the input (same statement, same iterator value)")
    def _(a):
        w, out = a.ghost.w, out_focus(a)
        if a.g.concrete:
            ci, co = counts(run_trace(w.focus)), counts(run_trace(out))
            if mode == "set":
                return all(k in ci for k in co)
            return all(co[k] <= ci.get(k, 0) for k in co)
        oev = events(out)
        wi = default_witness(w.in_events) if wit_in is None else (lambda v: wit_in(a, v, w.in_events))
        return contained(oev, w.in_events, wi, "o")

    @c.ensures("every execution of the input happens in the output")
    def _(a):
        w, out = a.ghost.w, out_focus(a)
        if a.g.concrete:
            ci, co = counts(run_trace(w.focus)), counts(run_trace(out))
            if mode == "set":
                return all(k in co for k in ci)
            return all(ci[k] <= co.get(k, 0) for k in ci)
        oev = events(out)
        return contained(w.in_events, oev, lambda v: wit_out(a, v, oev), "i")

    if mode in ("exact", "per_tag"):
        @c.ensures("executions keep their order" if mode == "exact" else
                   "the executions of each statement keep their order")
        def _(a):
            w, out = a.ghost.w, out_focus(a)
            if a.g.concrete:
                ti, to = run_trace(w.focus), run_trace(out)
                if counts(ti) != counts(to):
                    return True          # blamed on the two clauses above
                return ti == to if mode == "exact" else per_tag(ti) == per_tag(to)
            oev = events(out)
            cs = [increasing(w.in_events, "pi", same_tag_only=True), increasing(oev, "po", same_tag_only=True)]
            if mode == "exact":
                cs.append(cross_order(oev, w.in_events))
            return And(cs)

    if mode == "bag":
        @c.ensures("no execution is duplicated")
        def _(a):
            w, out = a.ghost.w, out_focus(a)
            if a.g.concrete:
                return True              # multiplicities are compared by the two containment clauses
            return And(injective(w.in_events, "ji"), injective(events(out), "jo"))

    if license is not None:
        c.ensures("the check that licenses this rewrite was made on the statements concerned")(license)
    for label, fn in (extra or []):
        c.ensures(label)(fn)
    return c


def cross_order(oev, iev):
    """statements of different tags keep their relative order: two output instances (a before b) are the
    images of input instances in the same order"""
    wit = default_witness(iev)
    cs = []
    for i, a in enumerate(oev):
        for j, b in enumerate(oev):
            if a.tag == b.tag:
                continue
            ea, eb = inst(a, f"xo{i}a"), inst(b, f"xo{j}b")
            va, vb = val(a, ea), val(b, eb)
            hits = []
            for ca, cea in wit(va):
                if ca.tag != a.tag:
                    continue
                for cb, ceb in wit(vb):
                    if cb.tag != b.tag:
                        continue
                    hits.append(And(dom(ca, cea), dom(cb, ceb), tup_eq(val(ca, cea), va),
                                    tup_eq(val(cb, ceb), vb), before(ca, cea, cb, ceb)))
            cs.append(Implies(And(dom(a, ea), dom(b, eb), before(a, ea, b, eb)), Or(hits)))
    return And(cs)


def injective(evs, label):
    cs = []
    for i, a in enumerate(evs):
        for j, b in enumerate(evs):
            if a.tag != b.tag or j < i:
                continue
            ea, eb = inst(a, f"{label}{i}a"), inst(b, f"{label}{j}b")
            if a is b:
                differ = Or([ea[k] != eb[k] for k in ea])
            else:
                differ = True
            cs.append(Implies(And(dom(a, ea), dom(b, eb), differ), Not(tup_eq(val(a, ea), val(b, eb)))))
    return And(cs)


def single_iter_witness(a, v, oev, tuples):
    """candidates: for every output event, the iterator tuples `tuples(event, v)`"""
    out = []
    for e in oev:
        for t in tuples(e, v):
            its = e.iters()
            if len(t) == len(its):
                out.append((e, {id(it): x for it, x in zip(its, t)}))
    return out


def native_logged(argnames):
    """replay entry: run the real function with recorders around the Check_* functions it reaches, so that
    the licensing clauses can be evaluated on the native run as well"""
    import inspect
    from pyvc.contract import Args

    def entry(g, fn, a):
        log = g.ghost.setdefault("checks", [])
        saved = {}
        for name in TG.CHECKS:
            real = getattr(LS, name, None)
            if real is None:
                continue
            saved[name] = real

            def mk(name, real):
                sig = inspect.signature(real)

                def rec(*args, **kw):
                    r = real(*args, **kw)
                    ba = sig.bind(*args, **kw)
                    ba.apply_defaults()
                    log.append((name, Args(**ba.arguments)))
                    return r
                return rec
            setattr(LS, name, mk(name, real))
        try:
            return fn(*[getattr(a, n) for n in argnames])
        finally:
            for name, real in saved.items():
                setattr(LS, name, real)
    return entry


# ----------------------------------------------------------------------------
# cut_loop

c_cut = contract("C01", F, "DoCutLoop")

@c_cut.inputs
def _(g):
    w = new_world(g)
    lo, hi = g_bound(g, w, "lo"), g_bound(g, w, "hi", argtype="size")
    cut = g_bound(g, w, "cut")
    close_world(g, w, [for_(w.I, lo, hi, [reduce_(w.X, [rd(w.I)])])], facts=[bop("<=", lo, cut), bop("<=", cut, hi)])
    return {"loop_c": w.cur[0], "cut_point": cut, "__ghost__": {"w": w}}

use_checks(c_cut, "Check_CompareExprs")
install(c_cut, "exact", lambda a, v, oev: single_iter_witness(a, v, oev, lambda e, v: [v]))


# ----------------------------------------------------------------------------
# shift_loop

c_shift = contract("C01", F, "DoShiftLoop")

@c_shift.inputs
def _(g):
    w = new_world(g)
    lo, hi = g_bound(g, w, "lo"), g_bound(g, w, "hi", argtype="size")
    new_lo = g_bound(g, w, "new_lo")
    close_world(g, w, [for_(w.I, lo, hi, [reduce_(w.X, [rd(w.I)])])], facts=[bop("<=", cst(0), new_lo)])
    return {"loop_c": w.cur[0], "new_lo": new_lo, "__ghost__": {"w": w, "lo": lo, "new_lo": new_lo}}

use_checks(c_shift, "Check_IsNonNegativeExpr")
install(c_shift, "exact", lambda a, v, oev: single_iter_witness(
    a, v, oev, lambda e, v: [(v[0] - evx(a.ghost.lo) + evx(a.ghost.new_lo),)]))


# ----------------------------------------------------------------------------
# join_loops

c_join = contract("C01", F, "DoJoinLoops")

@c_join.inputs
def _(g):
    w = new_world(g)
    lo1, hi1 = g_bound(g, w, "lo1"), g_bound(g, w, "hi1")
    # bounds that are arguments: the first upper bound and the second lower bound are the same argument
    # (two different arguments can only be equal through an assertion, which amounts to the same thing)
    lo2 = hi1 if w.kind == "arg" else g_bound(g, w, "lo2")
    hi2 = g_bound(g, w, "hi2", argtype="size")
    i2 = Sym("i")          # LoopIR_Compare matches iterators by *name*
    shape = g.choose(["same bodies", "first has an extra statement", "second has an extra statement",
                      "separated"], "bodies")
    b1, b2 = [reduce_(w.X, [rd(w.I)])], [reduce_(w.X, [rd(i2)])]
    if shape == "first has an extra statement":
        b1.append(reduce_(w.Y, [rd(w.I)], 2.0))
    if shape == "second has an extra statement":
        b2.append(reduce_(w.Y, [rd(i2)], 2.0))
    focus = [for_(w.I, lo1, hi1, b1), for_(i2, lo2, hi2, b2)]
    if shape == "separated":
        focus.insert(1, assign(w.W, [cst(0)], 3.0))
    w.f41 = shape in ("first has an extra statement", "second has an extra statement")
    close_world(g, w, focus)
    return {"loop1_c": w.cur[0], "loop2_c": w.cur[-1], "__ghost__": {"w": w}}

use_checks(c_join, "Check_ExprEqvInContext")
install(c_join, "exact", lambda a, v, oev: single_iter_witness(a, v, oev, lambda e, v: [v]))


# ----------------------------------------------------------------------------
# divide_loop (guard / cut / cut_and_guard / perfect)
#
# API: quot is a PosIntA (>= 1).  Non-linear facts (q * io + ii) are helped by
# the definitional extension of pyvc for `a div q`, `a mod q` with a symbolic
# divisor (fresh quotient / remainder with a == q * quo + rem, 0 <= rem < q).

def _defdiv(g):
    g.ghost["defdiv"] = True


c_div = contract("C01", F, "DoDivideLoop")
c_div.setup = _defdiv

@c_div.inputs
def _(g):
    w = new_world(g)
    lo = cst(g.int("lo"))
    hi = g_bound(g, w, "hi", argtype="size")
    tail, perfect = g.choose([("guard", False), ("cut", False), ("cut_and_guard", False), ("guard", True)], "tail")
    q = g.pos("quot")
    close_world(g, w, [for_(w.I, lo, hi, [reduce_(w.X, [rd(w.I)])])])
    return {"loop_cursor": w.cur[0], "quot": q, "outer_iter": "io", "inner_iter": "ii", "tail": tail,
            "perfect": perfect, "__ghost__": {"w": w, "q": q, "hi": hi}}


def _div_tuples(a):
    q, N = a.ghost.q, evx(a.ghost.hi)
    def tuples(e, v):
        n = len(e.iters())
        if n == 2:
            return [(S.floordiv(v[0], q), S.mod(v[0], q))]
        if n == 1:
            return [(v[0] - q * S.floordiv(N, q),)]
        return []
    return tuples

use_checks(c_div, "Check_IsDivisible")
install(c_div, "exact", lambda a, v, oev: single_iter_witness(a, v, oev, _div_tuples(a)))


# ----------------------------------------------------------------------------
# divide_with_recompute: same *set* of iterator values, licensed by idempotence

c_rec = contract("C01", F, "DoDivideWithRecompute")
c_rec.setup = _defdiv

@c_rec.inputs
def _(g):
    w = new_world(g)
    # the two known-finding classes (F42: lower bound not zero, F43: outer_hi not positive) are separate
    # paths, so that everything outside them must be proved
    lo_kind = g.choose(["lower bound 0", "lower bound not 0"], "lo.class")
    lo = cst(0) if lo_kind == "lower bound 0" else cst(g.int("lo"))
    if lo_kind != "lower bound 0":
        g.assume(lo.val != 0)
    hi = g_bound(g, w, "hi", argtype="size")
    s = g.pos("stride")
    form = g.choose(["expr", "e / stride", "e / (k * stride)", "e / c"], "outer_hi.form")
    oh = g_bound(g, w, "outer_hi")
    if form == "e / stride":
        oh = bop("/", oh, cst(s))
    elif form == "e / (k * stride)":
        oh = bop("/", oh, cst(s * g.pos("k")))
    elif form == "e / c":
        oh = bop("/", oh, cst(g.pos("c")))
    oh_kind = g.choose(["outer_hi positive", "outer_hi not positive"], "outer_hi.class")
    w.f42, w.f43 = lo_kind != "lower bound 0", oh_kind != "outer_hi positive"
    close_world(g, w, [for_(w.I, lo, hi, [assign(w.X, [rd(w.I)])])])
    return {"loop_cursor": w.cur[0], "outer_hi": oh, "outer_stride": s, "iter_o": "io", "iter_i": "ii",
            "__ghost__": {"w": w, "s": s, "oh": oh}}

@c_rec.requires
def _(a):
    v = evx(a.ghost.oh)
    return (v <= 0) if a.ghost.w.f43 else (v > 0)


def _rec_tuples(a):
    s, OH = a.ghost.s, evx(a.ghost.oh)
    def tuples(e, v):
        if len(e.iters()) != 2:
            return []
        io = S.Min(S.Max(S.floordiv(v[0], s), 0), OH - 1)
        return [(io, v[0] - s * io)]
    return tuples


def _idempotent_called_on(stmts_of):
    def lic(a):
        want = stmts_of(a)
        for k in calls(a, "Check_IsIdempotent"):
            got = list(k.stmts)
            if k.proc is a.ghost.w.proc and len(got) == len(want) and all(x is y for x, y in zip(got, want)):
                return True
        return False
    return lic

use_checks(c_rec, "Check_IsIdempotent", "Check_IsNonNegativeExpr")
install(c_rec, "set", lambda a, v, oev: single_iter_witness(a, v, oev, _rec_tuples(a)),
        license=_idempotent_called_on(lambda a: a.ghost.w.focus[0].body))
c_rec.native_entry = native_logged(["loop_cursor", "outer_hi", "outer_stride", "iter_o", "iter_i"])


# ----------------------------------------------------------------------------
# mult_loops

c_prod = contract("C01", F, "DoProductLoop")
c_prod.setup = _defdiv

@c_prod.inputs
def _(g):
    w = new_world(g)
    lo_o, lo_i = cst(g.int("lo_o")), cst(g.int("lo_i"))
    hi_o = g_bound(g, w, "hi_o", kinds=("const", "arg"), argtype="size")
    hi_i = g_bound(g, w, "hi_i", kinds=("const", "arg"), argtype="size")
    shape = g.choose(["perfect nest", "second statement in outer body"], "nest")
    inner = for_(w.J, lo_i, hi_i, [reduce_(w.X, [rd(w.I), rd(w.J)])])
    body = [inner] + ([reduce_(w.Y, [rd(w.I), cst(0)], 2.0)] if shape != "perfect nest" else [])
    close_world(g, w, [for_(w.I, lo_o, hi_o, body)], xdims=2)
    return {"outer_loop_c": w.cur[0], "new_name": "k", "__ghost__": {"w": w, "c": hi_i}}

install(c_prod, "exact", lambda a, v, oev: single_iter_witness(
    a, v, oev, lambda e, v: [(v[0] * evx(a.ghost.c) + v[1],)] if len(v) == 2 else []))


# ----------------------------------------------------------------------------
# unroll_loop (trip count 0..3, symbolic lower bound)

c_unr = contract("C01", F, "DoUnroll")

@c_unr.inputs
def _(g):
    w = new_world(g)
    lo, hi = g_bound(g, w, "lo", kinds=("const", "arg")), g_bound(g, w, "hi", kinds=("const", "arg"))
    if isinstance(lo, LoopIR.Const) and isinstance(hi, LoopIR.Const):
        g.assume(And(hi.val - lo.val >= 0, hi.val - lo.val <= 3))
    close_world(g, w, [for_(w.I, lo, hi, [reduce_(w.X, [rd(w.I)])])])
    return {"c_loop": w.cur[0], "__ghost__": {"w": w}}

install(c_unr, "exact", lambda a, v, oev: [(e, {}) for e in oev if not e.iters()])
c_unr.note("trip count hi - lo enumerated 0..3 (lower bound symbolic)")


# ----------------------------------------------------------------------------
# remove_loop / add_loop: same set of executions, licensed by idempotence

c_rm = contract("C01", F, "DoRemoveLoop")

@c_rm.inputs
def _(g):
    w = new_world(g)
    lo, hi = g_bound(g, w, "lo"), g_bound(g, w, "hi", argtype="size")
    uses = g.choose(["body ignores the iterator", "body uses the iterator"], "body")
    idx = [cst(0)] if uses == "body ignores the iterator" else [rd(w.I)]
    close_world(g, w, [for_(w.I, lo, hi, [assign(w.X, idx)])])
    return {"loop": w.cur[0], "unsafe_disable_check": False, "__ghost__": {"w": w, "lo": lo}}

use_checks(c_rm, "Check_IsIdempotent", "Check_IsPositiveExpr", "Check_CompareExprs")
install(c_rm, "set", lambda a, v, oev: [(e, {}) for e in oev if not e.iters()],
        wit_in=lambda a, v, iev: [(e, {id(e.iters()[0]): evx(a.ghost.lo)}) for e in iev],
        license=_idempotent_called_on(lambda a: [a.ghost.w.focus[0]]))
c_rm.native_entry = native_logged(["loop", "unsafe_disable_check"])


c_add = contract("C01", F, "DoAddLoop")

@c_add.inputs
def _(g):
    w = new_world(g)
    hi = g_bound(g, w, "hi", argtype="size")
    guard = g.choose([False, True], "guard")
    close_world(g, w, [assign(w.X, [cst(0)])])
    return {"stmt_cursor": w.cur[0], "var": "k", "hi": hi, "guard": guard, "unsafe_disable_check": False,
            "__ghost__": {"w": w}}

use_checks(c_add, "Check_IsIdempotent", "Check_IsPositiveExpr")
install(c_add, "set", lambda a, v, oev: single_iter_witness(a, v, oev, lambda e, v: [(0,)]),
        license=_idempotent_called_on(lambda a: [a.ghost.w.focus[0]]))
c_add.native_entry = native_logged(["stmt_cursor", "var", "hi", "guard", "unsafe_disable_check"])


# ----------------------------------------------------------------------------
# fuse (loops): per-statement traces, interleaving licensed by Check_FissionLoop
# on the fused loop, split exactly between the two original bodies

c_fuse = contract("C01", F, "DoFuseLoop")

@c_fuse.inputs
def _(g):
    w = new_world(g)
    lo1, hi1 = g_bound(g, w, "lo1"), g_bound(g, w, "hi1", argtype="size")
    lo2 = g_bound(g, w, "lo2")
    hi2 = hi1 if w.kind == "arg" else g_bound(g, w, "hi2", argtype="size")      # see join_loops
    focus = [for_(w.I, lo1, hi1, [reduce_(w.X, [rd(w.I)])]), for_(w.J, lo2, hi2, [reduce_(w.Y, [rd(w.J)], 2.0)])]
    if g.choose(["adjacent", "separated"], "adjacent") == "separated":
        focus.insert(1, assign(w.W, [cst(0)], 3.0))
    close_world(g, w, focus)
    return {"f_cursor": w.cur[0], "s_cursor": w.cur[-1], "unsafe_disable_check": False, "__ghost__": {"w": w}}


def _fission_license(a, loops_split):
    """one Check_FissionLoop call per split/fused loop: on a loop of the procedure it is given, with the two
    statement lists partitioning that loop's body at the place where the rewrite splits / joins it"""
    ks = calls(a, "Check_FissionLoop")
    for loop, tags1, tags2 in loops_split:
        ok = False
        for k in ks:
            s1, s2 = list(k.stmts1), list(k.stmts2)
            same_loop = k.loop is loop or (isinstance(k.loop, LoopIR.For) and k.loop.iter is loop.iter)
            if (same_loop and [e.tag for e in events(s1)] == tags1 and [e.tag for e in events(s2)] == tags2
                    and [e.tag for e in events(k.loop.body)] == tags1 + tags2
                    and any(k.loop is l for l in loops_of(k.proc.body))):
                ok = True
        if not ok:
            return False
    return True


def _fuse_license(a):
    w, out = a.ghost.w, out_focus(a)
    fused = [s for s in out if isinstance(s, LoopIR.For)]
    if len(fused) != 1:
        return False
    t1 = [e.tag for e in events(w.focus[0].body)]
    t2 = [e.tag for e in events(w.focus[-1].body)]
    ks = [k for k in calls(a, "Check_FissionLoop") if k.proc is a.result[0] and k.loop is fused[0]]
    return _fission_license(a, [(fused[0], t1, t2)]) and len(ks) >= 1

use_checks(c_fuse, "Check_ExprEqvInContext", "Check_FissionLoop")
install(c_fuse, "per_tag", lambda a, v, oev: single_iter_witness(a, v, oev, lambda e, v: [v]),
        license=_fuse_license)
c_fuse.native_entry = native_logged(["f_cursor", "s_cursor", "unsafe_disable_check"])


# ----------------------------------------------------------------------------
# fuse (ifs), eliminate_dead_code

def g_cond(g, w, name):
    """a condition whose value does not depend on program state: n < c (n an argument, c symbolic literal)"""
    if not hasattr(w, "N"):
        w.N = Sym("n")
        w.sizes.append(w.N)
    return bop("<", rd(w.N, T.size), cst(g.int(name)))


c_fif = contract("C01", F, "DoFuseIf")

@c_fif.inputs
def _(g):
    w = new_world(g)
    c1, c2 = g_cond(g, w, "c1"), g_cond(g, w, "c2")
    e1 = g.choose([False, True], "first has else")
    e2 = g.choose([False, True], "second has else")
    A, B = reduce_(w.X, [cst(0)], 1.0), reduce_(w.X, [cst(1)], 2.0)
    C, D = reduce_(w.Y, [cst(0)], 3.0), reduce_(w.Y, [cst(1)], 4.0)
    focus = [if_(c1, [A], [B] if e1 else []), if_(c2, [C], [D] if e2 else [])]
    if g.choose(["adjacent", "separated"], "adjacent") == "separated":
        focus.insert(1, assign(w.W, [cst(0)], 3.0))
    close_world(g, w, focus)
    return {"f_cursor": w.cur[0], "s_cursor": w.cur[-1], "__ghost__": {"w": w}}

use_checks(c_fif, "Check_ExprEqvInContext")
install(c_fif, "exact", lambda a, v, oev: [(e, {}) for e in oev])


c_dl = contract("C01", F, "DoEliminateDeadLoop")

@c_dl.inputs
def _(g):
    w = new_world(g)
    lo, hi = g_bound(g, w, "lo"), g_bound(g, w, "hi", argtype="size")
    close_world(g, w, [for_(w.I, lo, hi, [reduce_(w.X, [rd(w.I)])])],
                facts=[bop("<=", hi, lo)] if g.choose(["any loop", "asserted empty"], "facts") == "asserted empty" else [])
    return {"loop_cursor": w.cur[0], "__ghost__": {"w": w}}

use_checks(c_dl, "Check_CompareExprs")
install(c_dl, "exact", lambda a, v, oev: [])


c_db = contract("C01", F, "DoEliminateIfDeadBranch")

@c_db.inputs
def _(g):
    w = new_world(g)
    c1 = g_cond(g, w, "c1")
    has_else = g.choose([False, True], "else")
    A, B = reduce_(w.X, [cst(0)], 1.0), reduce_(w.X, [cst(1)], 2.0)
    close_world(g, w, [if_(c1, [A], [B] if has_else else [])])
    return {"if_cursor": w.cur[0], "__ghost__": {"w": w}}

use_checks(c_db, "Check_ExprEqvInContext")
install(c_db, "exact", lambda a, v, oev: [(e, {}) for e in oev])


# ----------------------------------------------------------------------------
# guards that read configuration state (F21 family)
#
# When a rewrite duplicates a guard, or moves it across / around statements,
# the statements concerned must not change the guard's value: either they
# write no configuration field the guard reads, or a Check_ExprEqvInContext
# call on the guard (its value before vs. after those statements) licensed it.

def g_guard(g, w, name, allow_cfg=True):
    """(cond, kind): a pure condition, or one that reads the configuration field"""
    kind = g.choose(["pure", "reads config"] if allow_cfg else ["pure"], name + ".kind")
    if kind == "pure":
        return g_cond(g, w, name), kind
    return bop("==", TG.cfg_read(), cst(g.int(name))), kind


def g_first_half(g, w, kind, stmt):
    """the statements executed between two evaluations of the guard: `stmt` alone, or preceded by a write to
    the configuration field the guard reads"""
    if kind == "reads config" and g.choose(["keeps the field", "writes the field"], "first half") == "writes the field":
        return [TG.cfg_write(cst(g.int("newval"))), stmt]
    return [stmt]


def guard_stable(cond_of, moved_of):
    def clause(a):
        cond, moved = cond_of(a), moved_of(a)
        if not (TG.cfg_reads(cond) & TG.cfg_writes(moved)):
            return True
        for k in calls(a, "Check_ExprEqvInContext"):
            if k.expr0 is cond and (k.expr1 is cond):
                return True
        return False
    return clause

GUARD_LABEL = "statements that run between two evaluations of a guard do not change what it reads"


def _world_of(c, model, choices):
    """re-run the contract's generator on the counterexample's shape and values"""
    from pyvc.sym import ConcreteCtx
    from pyvc.run import G
    ctx = ConcreteCtx(values=model, choices=choices)
    old = S.set_ctx(ctx)
    try:
        g = G(ctx)
        if c.setup:
            c.setup(g)
        return c.gen(g)["__ghost__"]["w"]
    finally:
        S.set_ctx(old)


def f21_witness(c, model, choices):
    """F21: a guard reads a configuration field that is written by the statements the rewrite places between
    two evaluations of that guard"""
    return bool(getattr(_world_of(c, model, choices), "cfg_conflict", False))


def f41_witness(c, model, choices):
    """F41: join_loops of two loops whose bodies have different lengths"""
    return bool(getattr(_world_of(c, model, choices), "f41", False))


def f42_witness(c, model, choices):
    """F42: divide_with_recompute of a loop whose lower bound is not 0"""
    return bool(getattr(_world_of(c, model, choices), "f42", False))


def f43_witness(c, model, choices):
    """F43: divide_with_recompute with an outer extent that is not positive"""
    w = _world_of(c, model, choices)
    return bool(getattr(w, "f43", False)) and not getattr(w, "f42", False)


def f44_witness(c, model, choices):
    """F44: lift_scope of an if without else out of an if whose other branch is not empty"""
    return bool(getattr(_world_of(c, model, choices), "f44", False))


# ----------------------------------------------------------------------------
# lift_scope

c_lift = contract("C01", F, "DoLiftScope")

@c_lift.inputs
def _(g):
    w = new_world(g)
    shape = g.choose(["if in if-body", "if in if-orelse", "for in if", "if in for", "for in for"], "shape")
    A = reduce_(w.X, [cst(0)], 1.0)
    B = reduce_(w.X, [cst(1)], 2.0)
    C = reduce_(w.Y, [cst(0)], 3.0)
    gh = {"w": w, "shape": shape, "cond": None, "moved": []}
    if shape in ("if in if-body", "if in if-orelse"):
        co, ci = g_cond(g, w, "c_outer"), g_cond(g, w, "c_inner")
        has_b = g.choose([False, True], "inner else")
        inner = if_(ci, [A], [B] if has_b else [])
        if shape == "if in if-body":
            has_c = g.choose([False, True], "outer else")
            extra = g.choose([False, True], "second statement in outer body")
            outer = if_(co, [inner] + ([reduce_(w.W, [cst(0)], 4.0)] if extra else []), [C] if has_c else [])
            pos = ("body", 0)
            w.f44 = has_c and not has_b
        else:
            extra = g.choose([False, True], "second statement in outer orelse")
            outer = if_(co, [C], [inner] + ([reduce_(w.W, [cst(0)], 4.0)] if extra else []))
            pos = ("orelse", 0)
            w.f44 = not has_b
        close_world(g, w, [outer])
        inner_c = w.cur[0].body()[0] if pos[0] == "body" else w.cur[0].orelse()[0]
    elif shape == "for in if":
        lo, hi = g_bound(g, w, "lo"), g_bound(g, w, "hi", argtype="size")
        co, kind = g_guard(g, w, "c_outer")
        st = reduce_(w.X, [rd(w.I)])
        body = g_first_half(g, w, kind, st)
        w.cfg_conflict = len(body) == 2
        loop = for_(w.I, lo, hi, body)
        has_c = g.choose([False, True], "outer else")
        close_world(g, w, [if_(co, [loop], [C] if has_c else [])])
        inner_c = w.cur[0].body()[0]
        gh["cond"], gh["moved"] = co, body
    elif shape == "if in for":
        lo, hi = g_bound(g, w, "lo"), g_bound(g, w, "hi", argtype="size")
        dep = g.choose(["guard ignores the iterator", "guard reads the iterator"], "guard")
        if dep == "guard reads the iterator":
            ci, kind = bop("<", rd(w.I), cst(g.int("c_inner"))), "pure"
        else:
            ci, kind = g_guard(g, w, "c_inner")
        st = reduce_(w.X, [rd(w.I)])
        body = g_first_half(g, w, kind, st)
        w.cfg_conflict = len(body) == 2
        has_b = g.choose([False, True], "inner else")
        inner = if_(ci, body, [reduce_(w.Y, [rd(w.I)], 2.0)] if has_b else [])
        close_world(g, w, [for_(w.I, lo, hi, [inner])])
        inner_c = w.cur[0].body()[0]
        gh["cond"], gh["moved"] = ci, body
    else:
        lo, hi = g_bound(g, w, "lo"), g_bound(g, w, "hi", argtype="size")
        lo2, hi2 = g_bound(g, w, "lo2"), g_bound(g, w, "hi2", argtype="size")
        extra = g.choose([False, True], "second statement in outer body")
        inner = for_(w.J, lo2, hi2, [reduce_(w.X, [rd(w.I), rd(w.J)])])
        close_world(g, w, [for_(w.I, lo, hi, [inner] + ([reduce_(w.W, [cst(0)], 4.0)] if extra else []))], xdims=2)
        inner_c = w.cur[0].body()[0]
    return {"inner_c": inner_c, "__ghost__": gh}


def _lift_mode_clause(kind):
    pass


def _lift_witness(a, v, oev):
    out = []
    for e in oev:
        its = e.iters()
        if len(its) == len(v) == 2:
            # loop interchange: the output nest is (j, i), the value is (i, j)
            names = [it.name() for it in its]
            env = {id(its[0]): v[1], id(its[1]): v[0]} if names == ["j", "i"] else \
                {id(its[0]): v[0], id(its[1]): v[1]}
            out.append((e, env))
        elif len(its) == 1 and len(v) >= 1:
            out.append((e, {id(its[0]): v[0]}))
        elif not its:
            out.append((e, {}))
    return out


def _lift_license(a):
    if a.ghost.shape != "for in for":
        return True
    w = a.ghost.w
    return any(k.proc is w.proc and k.s is w.focus[0] for k in calls(a, "Check_ReorderLoops"))


def _lift_order(a):
    """all shapes but the loop interchange keep the exact sequence"""
    w, out = a.ghost.w, out_focus(a)
    if a.g.concrete:
        ti, to = run_trace(w.focus), run_trace(out)
        if counts(ti) != counts(to) or a.ghost.shape == "for in for":
            return True
        return ti == to
    oev = events(out)
    if a.ghost.shape == "for in for":
        return And(injective(w.in_events, "ji"), injective(oev, "jo"))
    return And(increasing(w.in_events, "pi", same_tag_only=True), increasing(oev, "po", same_tag_only=True),
               cross_order(oev, w.in_events))

use_checks(c_lift, "Check_ReorderLoops", "Check_ExprEqvInContext")
install(c_lift, "bag", _lift_witness, license=_lift_license,
        extra=[("executions keep their order (loop interchange: no execution is duplicated)", _lift_order),
               (GUARD_LABEL, guard_stable(lambda a: a.ghost.cond, lambda a: a.ghost.moved)
                if True else None)])
c_lift.native_entry = native_logged(["inner_c"])


# ----------------------------------------------------------------------------
# fission

c_fis = contract("C01", F, "DoFissionAfterSimple")

@c_fis.inputs
def _(g):
    w = new_world(g)
    shape = g.choose(["for", "for, three statements", "for in for", "if-body", "if-orelse"], "shape")
    gh = {"w": w, "shape": shape, "cond": None, "moved": [], "split": []}
    if shape in ("for", "for, three statements"):
        lo, hi = g_bound(g, w, "lo"), g_bound(g, w, "hi", argtype="size")
        S1, S2, S3 = reduce_(w.X, [rd(w.I)]), reduce_(w.Y, [rd(w.I)], 2.0), reduce_(w.W, [rd(w.I)], 3.0)
        body = [S1, S2] + ([S3] if shape != "for" else [])
        at = g.choose(list(range(len(body) - 1)), "after")
        close_world(g, w, [for_(w.I, lo, hi, body)])
        cur, n = w.cur[0].body()[at], 1
        gh["split"] = [(w.focus[0], at + 1)]
    elif shape == "for in for":
        lo, hi = g_bound(g, w, "lo"), g_bound(g, w, "hi", argtype="size")
        lo2, hi2 = cst(g.int("lo2")), cst(g.int("hi2"))
        S1, S2 = reduce_(w.X, [rd(w.I), rd(w.J)]), reduce_(w.Y, [rd(w.I), rd(w.J)], 2.0)
        inner = for_(w.J, lo2, hi2, [S1, S2])
        close_world(g, w, [for_(w.I, lo, hi, [inner])], xdims=2)
        n = g.choose([1, 2], "n_lifts")
        cur = w.cur[0].body()[0].body()[0]
        gh["split"] = [(inner, 1)] + ([(w.focus[0], None)] if n == 2 else [])
    else:
        co, kind = g_guard(g, w, "c")
        S1, S2 = reduce_(w.X, [cst(0)], 1.0), reduce_(w.Y, [cst(0)], 2.0)
        other = [reduce_(w.W, [cst(0)], 3.0)] if g.choose([False, True], "other branch") else []
        first = g_first_half(g, w, kind, S1)
        w.cfg_conflict = len(first) == 2
        if shape == "if-body":
            close_world(g, w, [if_(co, first + [S2], other)])
            cur = w.cur[0].body()[len(first) - 1]
        else:
            if not other:
                other = [LoopIR.Pass(SRC)]
            close_world(g, w, [if_(co, other, first + [S2])])
            cur = w.cur[0].orelse()[len(first) - 1]
        n = 1
        # the guard is evaluated again after: the first half (same branch) - and, for a split of the orelse
        # branch, after the whole `then` branch as well
        gh["cond"], gh["moved"] = co, first + (other if shape == "if-orelse" else [])
    return {"stmt_cursor": cur, "n_lifts": n, "unsafe_disable_checks": False, "__ghost__": gh}


def _fis_license(a):
    w = a.ghost.w
    want = []
    for loop, at in a.ghost.split:
        if at is None:
            # outer loop of the nest: split between the two copies of the inner loop
            t = [e.tag for e in events(loop.body)]
            want.append((loop, t[:1], t[1:]))
        else:
            want.append((loop, [e.tag for e in events(loop.body[:at])], [e.tag for e in events(loop.body[at:])]))
    return _fission_license(a, want)


def _fis_order(a):
    w, out = a.ghost.w, out_focus(a)
    exact = a.ghost.shape in ("if-body", "if-orelse")
    if a.g.concrete:
        ti, to = run_trace(w.focus), run_trace(out)
        if counts(ti) != counts(to):
            return True
        return ti == to if exact else per_tag(ti) == per_tag(to)
    oev = events(out)
    cs = [increasing(w.in_events, "pi", same_tag_only=True), increasing(oev, "po", same_tag_only=True)]
    if exact:
        cs.append(cross_order(oev, w.in_events))
    return And(cs)


def _fis_witness(a, v, oev):
    out = []
    for e in oev:
        its = e.iters()
        if len(its) == len(v) and its:
            out.append((e, {id(it): x for it, x in zip(its, v)}))
        elif not its:
            out.append((e, {}))
    return out

use_checks(c_fis, "Check_FissionLoop", "Check_ExprEqvInContext")
install(c_fis, "bag", _fis_witness, license=_fis_license,
        extra=[("the executions of each statement keep their order (if: all executions)", _fis_order),
               (GUARD_LABEL, guard_stable(lambda a: a.ghost.cond, lambda a: a.ghost.moved))])
c_fis.native_entry = native_logged(["stmt_cursor", "n_lifts", "unsafe_disable_checks"])


# ----------------------------------------------------------------------------
# reorder_stmts

c_ro = contract("C01", F, "DoReorderStmt")

@c_ro.inputs
def _(g):
    w = new_world(g)
    A, B = reduce_(w.X, [cst(0)], 1.0), reduce_(w.Y, [cst(0)], 2.0)
    focus = [A, B]
    if g.choose(["adjacent", "separated"], "adjacent") == "separated":
        focus.insert(1, reduce_(w.W, [cst(0)], 3.0))
    close_world(g, w, focus)
    return {"f_cursor": w.cur[0], "s_cursor": w.cur[-1], "__ghost__": {"w": w}}


def _ro_license(a):
    w = a.ghost.w
    return any(k.proc is w.proc and k.s1 is w.focus[0] and k.s2 is w.focus[-1]
               for k in calls(a, "Check_ReorderStmts"))

use_checks(c_ro, "Check_ReorderStmts")
install(c_ro, "per_tag", lambda a, v, oev: [(e, {}) for e in oev], license=_ro_license)
c_ro.native_entry = native_logged(["f_cursor", "s_cursor"])
