"""C01 (a) - loop-restructuring rewrites preserve the iteration trace.

Targets: the `Do*` functions of src/exo/rewrite/LoopIR_scheduling.py.  Each is
interpreted by pyvc on a *real* little procedure

    def p(n: size, m: index, x: f32[..], y: f32[..], z: f32[2]):
        assert lo <= hi                      # front-end rule, see below
        z[0] = 0.0                           # sibling before
        for i in seq(LO, HI): x[i] += 1.0    # the statement(s) being rewritten
        z[1] = 5.0                           # sibling after

whose bounds LO / HI are a literal with a *symbolic* value or an argument, with
the real cursor library, pattern matcher, Alpha_Rename and SubstArgs running
natively (assumed / verified elsewhere: C06, C16).  The `Check_*` side
conditions are modular callees: a check either raises SchedulingError or returns,
and then the fact it was asked about holds (contracts/trace_ghost.py CHECKS).

Oracle (property text: "leaves exactly the same final contents ... for every
input that satisfies the original procedure's assertions"): the sequential
semantics of for / if / blocks.  The body `x[i] += 1.0` stands for an arbitrary
statement that depends on the iterator; what is compared is the *iteration
trace* - the sequence of (statement, iterator values) executions:
  exact    same sequence (divide, cut, shift, join, product, unroll, dead code,
           fuse_if)
  per-tag  each statement keeps its own sequence; interleaving with the other
           statements may change only if the licensing Check_* call was made on
           exactly the statements that are interleaved (fuse, fission, reorder)
  bag      each statement runs for the same multiset of iterator tuples and the
           licensing call was made (loop interchange in lift_scope)
  set      each statement runs for the same set of iterator values (possibly a
           different number of times) and Check_IsIdempotent was called on it
           (remove_loop, add_loop, divide_with_recompute)

Precondition on inputs ("valid input"): every loop has lo <= hi for every
admitted argument value - src/exo/frontend/boundscheck.py (CheckBounds.map_stmts:
`check_non_negative(hi - lo)`) rejects any other procedure.

Limits (reported in the evidence): the rewritten statements sit at the top level
of the procedure between two siblings; bodies are one or two observable
statements; bounds do not mention enclosing iterators; `unroll` is checked for
trip counts 0..3 (symbolic lower bound).
"""
from __future__ import annotations
from pyvc.contract import contract
from pyvc import sym as S
from pyvc.sym import And, Or, Not, Implies, Ite
from contracts.ghost import rho, SRC
from contracts import trace_ghost as TG
from contracts.trace_ghost import (rd, cst, bop, for_, if_, assign, reduce_, evx, events, inst, dom, val,
                                   before, contained, increasing, default_witness, run_trace, counts,
                                   per_tag, use_checks, calls, lex_lt, tup_eq)
from exo.core.LoopIR import LoopIR, T
from exo.core.prelude import Sym
from exo.core import internal_cursors as ic
from exo.rewrite import LoopIR_scheduling as LS
from exo.rewrite.new_eff import SchedulingError

F = "src/exo/rewrite/LoopIR_scheduling.py"

NATIVE_MODULES = ("exo.core.internal_cursors", "exo.core.LoopIR", "exo.frontend.pattern_match")

ASSUMPTIONS = [
    "C01(a): exo.core.internal_cursors (edit + forwarding primitives) behaves as its C06 contracts state; it runs "
    "natively inside the interpreted Do* functions",
    "C01(a): Alpha_Rename(b).result() is b with binders renamed consistently; SubstArgs(b, env).result() is b with "
    "reads of env's symbols replaced; match_pattern('sym[_]') returns every read of sym below the cursor; "
    "LoopIR_Compare.match_stmts accepts only bodies equal up to the iterator name (run natively, not verified)",
    "C01(a): a Check_* call that returns establishes the fact it was asked about for every input admitted by the "
    "procedure's assertions (effect extraction, ContextExtraction, SMT lowering: see c01_conditions / c01_smt)",
    "C01(a): valid input = every loop has lo <= hi (CheckBounds rejects other procedures); the body of the rewritten "
    "loop is one observable statement `x[i] += c` / `x[i] = c` standing for an arbitrary statement that uses the "
    "iterator; rewritten statements are at the top level of the procedure, between two sibling statements",
]


# ----------------------------------------------------------------------------
# worlds

class World:
    pass


def g_bound(g, w, name, kinds=("const", "arg"), argtype="index"):
    """a loop bound: literal with a symbolic value, or an argument"""
    k = g.choose(list(kinds), name + ".kind")
    if k == "const":
        return cst(g.int(name))
    s = Sym(name)
    if argtype == "size":
        w.sizes.append(s)
        return rd(s, T.size)
    w.idxargs.append(s)
    return rd(s, T.index)


def new_world(g):
    w = World()
    w.sizes, w.idxargs = [], []
    w.X, w.Y, w.Z, w.W = Sym("x"), Sym("y"), Sym("z"), Sym("w")
    w.I, w.J = Sym("i"), Sym("j")
    w.pre = assign(w.Z, [cst(0)], 0.0)
    w.post = assign(w.Z, [cst(1)], 5.0)
    return w


def loops_of(stmts):
    out = []
    for s in stmts:
        if isinstance(s, LoopIR.For):
            out.append(s)
            out += loops_of(s.body)
        elif isinstance(s, LoopIR.If):
            out += loops_of(s.body) + loops_of(s.orelse)
    return out


def close_world(g, w, focus, xdims=1):
    """build the procedure around the statements `focus`"""
    w.focus = list(focus)
    preds = []
    for l in loops_of(w.focus):
        if not (isinstance(l.lo, LoopIR.Const) and isinstance(l.hi, LoopIR.Const)):
            preds.append(bop("<=", l.lo, l.hi))
    args = [TG.size_arg(s) for s in w.sizes] + [LoopIR.fnarg(s, T.index, None, SRC) for s in w.idxargs]
    args += [TG.buf_arg(w.X, [16] * xdims), TG.buf_arg(w.Y, [16] * xdims), TG.buf_arg(w.W, [16]),
             TG.buf_arg(w.Z, [2])]
    w.proc = TG.mk_proc(args, preds, [w.pre] + w.focus + [w.post])
    w.root = ic.Cursor.create(w.proc)
    w.cur = [w.root.body()[1 + k] for k in range(len(w.focus))]
    w.in_events = events(w.focus)
    return w


def valid_input(a):
    w = a.ghost.w
    cs = [rho(s) > 0 for s in w.sizes]
    cs += [evx(l.lo) <= evx(l.hi) for l in loops_of(w.focus)]
    return And(cs)


def out_focus(a):
    """the rewritten statements: what now stands between the two siblings"""
    ir = a.result[0]
    return list(ir.body[1:-1])


# ----------------------------------------------------------------------------
# clause installers

def _same_node(x, y):
    return x is y


def install(c, mode, wit_out, license=None):
    """mode: exact | per_tag | bag | set (module docstring).  wit_out(a, v, out_events) lists candidate
    output instances (event, env) observing the value tuple v.  license(a) must hold in the non-exact modes."""
    for m in NATIVE_MODULES:
        c.native_modules.add(m)
    c.requires(valid_input)
    c.raises(SchedulingError, label="SchedulingError is the only way to refuse")

    @c.ensures("signature, assertions and sibling statements are untouched")
    def _(a):
        w, ir = a.ghost.w, a.result[0]
        return (isinstance(ir, LoopIR.proc) and ir.args == w.proc.args and ir.preds == w.proc.preds
                and len(ir.body) >= 2 and ir.body[0] is w.pre and ir.body[-1] is w.post)

    @c.ensures("every execution in the output is an execution of the input (same statement, same iterator value)")
    def _(a):
        w, out = a.ghost.w, out_focus(a)
        if a.g.concrete:
            ci, co = counts(run_trace(w.focus)), counts(run_trace(out))
            if mode == "set":
                return all(k in ci for k in co)
            return all(co[k] <= ci.get(k, 0) for k in co)
        oev = events(out)
        return contained(oev, w.in_events, default_witness(w.in_events), "o")

    @c.ensures("every execution of the input happens in the output")
    def _(a):
        w, out = a.ghost.w, out_focus(a)
        if a.g.concrete:
            ci, co = counts(run_trace(w.focus)), counts(run_trace(out))
            if mode == "set":
                return all(k in co for k in ci)
            return all(ci[k] <= co.get(k, 0) for k in ci)
        oev = events(out)
        return contained(w.in_events, oev, lambda v: wit_out(a, v, oev), "i")

    if mode in ("exact", "per_tag"):
        @c.ensures("executions keep their order" if mode == "exact" else
                   "the executions of each statement keep their order")
        def _(a):
            w, out = a.ghost.w, out_focus(a)
            if a.g.concrete:
                ti, to = run_trace(w.focus), run_trace(out)
                if counts(ti) != counts(to):
                    return True          # blamed on the two clauses above
                return ti == to if mode == "exact" else per_tag(ti) == per_tag(to)
            oev = events(out)
            cs = [increasing(w.in_events, "pi", same_tag_only=True), increasing(oev, "po", same_tag_only=True)]
            if mode == "exact":
                cs.append(cross_order(oev, w.in_events))
            return And(cs)

    if mode == "bag":
        @c.ensures("no execution is duplicated")
        def _(a):
            w, out = a.ghost.w, out_focus(a)
            if a.g.concrete:
                return True              # multiplicities are compared by the two containment clauses
            return And(injective(w.in_events, "ji"), injective(events(out), "jo"))

    if license is not None:
        c.ensures("the check that licenses this rewrite was made on the statements concerned")(license)
    return c


def cross_order(oev, iev):
    """statements of different tags keep their relative order: two output instances (a before b) are the
    images of input instances in the same order"""
    wit = default_witness(iev)
    cs = []
    for i, a in enumerate(oev):
        for j, b in enumerate(oev):
            if a.tag == b.tag:
                continue
            ea, eb = inst(a, f"xo{i}a"), inst(b, f"xo{j}b")
            va, vb = val(a, ea), val(b, eb)
            hits = []
            for ca, cea in wit(va):
                if ca.tag != a.tag:
                    continue
                for cb, ceb in wit(vb):
                    if cb.tag != b.tag:
                        continue
                    hits.append(And(dom(ca, cea), dom(cb, ceb), tup_eq(val(ca, cea), va),
                                    tup_eq(val(cb, ceb), vb), before(ca, cea, cb, ceb)))
            cs.append(Implies(And(dom(a, ea), dom(b, eb), before(a, ea, b, eb)), Or(hits)))
    return And(cs)


def injective(evs, label):
    cs = []
    for i, a in enumerate(evs):
        for j, b in enumerate(evs):
            if a.tag != b.tag or j < i:
                continue
            ea, eb = inst(a, f"{label}{i}a"), inst(b, f"{label}{j}b")
            if a is b:
                differ = Or([ea[k] != eb[k] for k in ea])
            else:
                differ = True
            cs.append(Implies(And(dom(a, ea), dom(b, eb), differ), Not(tup_eq(val(a, ea), val(b, eb)))))
    return And(cs)


def single_iter_witness(a, v, oev, tuples):
    """candidates: for every output event, the iterator tuples `tuples(event, v)`"""
    out = []
    for e in oev:
        for t in tuples(e, v):
            its = e.iters()
            if len(t) == len(its):
                out.append((e, {id(it): x for it, x in zip(its, t)}))
    return out


def native_logged(argnames):
    """replay entry: run the real function with recorders around the Check_* functions it reaches, so that
    the licensing clauses can be evaluated on the native run as well"""
    import inspect
    from pyvc.contract import Args

    def entry(g, fn, a):
        log = g.ghost.setdefault("checks", [])
        saved = {}
        for name in TG.CHECKS:
            real = getattr(LS, name, None)
            if real is None:
                continue
            saved[name] = real

            def mk(name, real):
                sig = inspect.signature(real)

                def rec(*args, **kw):
                    r = real(*args, **kw)
                    ba = sig.bind(*args, **kw)
                    ba.apply_defaults()
                    log.append((name, Args(**ba.arguments)))
                    return r
                return rec
            setattr(LS, name, mk(name, real))
        try:
            return fn(*[getattr(a, n) for n in argnames])
        finally:
            for name, real in saved.items():
                setattr(LS, name, real)
    return entry


# ----------------------------------------------------------------------------
# cut_loop

c_cut = contract("C01", F, "DoCutLoop")

@c_cut.inputs
def _(g):
    w = new_world(g)
    lo, hi = g_bound(g, w, "lo"), g_bound(g, w, "hi", argtype="size")
    cut = g_bound(g, w, "cut")
    close_world(g, w, [for_(w.I, lo, hi, [reduce_(w.X, [rd(w.I)])])])
    return {"loop_c": w.cur[0], "cut_point": cut, "__ghost__": {"w": w}}

use_checks(c_cut, "Check_CompareExprs")
install(c_cut, "exact", lambda a, v, oev: single_iter_witness(a, v, oev, lambda e, v: [v]))


# ----------------------------------------------------------------------------
# shift_loop

c_shift = contract("C01", F, "DoShiftLoop")

@c_shift.inputs
def _(g):
    w = new_world(g)
    lo, hi = g_bound(g, w, "lo"), g_bound(g, w, "hi", argtype="size")
    new_lo = g_bound(g, w, "new_lo")
    close_world(g, w, [for_(w.I, lo, hi, [reduce_(w.X, [rd(w.I)])])])
    return {"loop_c": w.cur[0], "new_lo": new_lo, "__ghost__": {"w": w, "lo": lo, "new_lo": new_lo}}

use_checks(c_shift, "Check_IsNonNegativeExpr")
install(c_shift, "exact", lambda a, v, oev: single_iter_witness(
    a, v, oev, lambda e, v: [(v[0] - evx(a.ghost.lo) + evx(a.ghost.new_lo),)]))


# ----------------------------------------------------------------------------
# join_loops

c_join = contract("C01", F, "DoJoinLoops")

@c_join.inputs
def _(g):
    w = new_world(g)
    lo1, hi1 = g_bound(g, w, "lo1"), g_bound(g, w, "hi1")
    lo2, hi2 = g_bound(g, w, "lo2"), g_bound(g, w, "hi2", argtype="size")
    focus = [for_(w.I, lo1, hi1, [reduce_(w.X, [rd(w.I)])]), for_(w.J, lo2, hi2, [reduce_(w.X, [rd(w.J)])])]
    third = g.choose(["adjacent", "separated"], "adjacent")
    if third == "separated":
        focus.insert(1, assign(w.W, [cst(0)], 3.0))
    close_world(g, w, focus)
    return {"loop1_c": w.cur[0], "loop2_c": w.cur[-1], "__ghost__": {"w": w}}

use_checks(c_join, "Check_ExprEqvInContext")
install(c_join, "exact", lambda a, v, oev: single_iter_witness(a, v, oev, lambda e, v: [v]))
