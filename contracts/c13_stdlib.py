"""C13 - the user-level mirror in src/exo/stdlib/range_analysis.py.

`infer_range(idx_expr, scope)` must report a range that contains every value the
index expression takes while the loops between it and `scope` run - including
when an inner loop re-uses the name of an outer one (only the innermost binding
of a name is visible to the expression)."""
from __future__ import annotations
from pyvc.contract import contract
from pyvc import sym as S
from pyvc.sym import And, Or, Not, Implies
from contracts.ghost import ev, rho, SRC
from contracts.c13_range import in_gamma
from exo.core.LoopIR import LoopIR, T
from exo.core.prelude import Sym
from exo.core.memory import DRAM

FS = "src/exo/stdlib/range_analysis.py"

cir_ = contract("C13", FS, "infer_range")
cir_.native_modules.update({"exo.core.internal_cursors"})

@cir_.inputs
def _(g):
    import exo.API as api
    same = g.choose(["distinct names", "inner shadows outer"], "names")
    A, B, K, X = Sym("i"), Sym("i" if same != "distinct names" else "j"), Sym("k"), Sym("x")
    rd = lambda s: LoopIR.Read(s, [], T.index, SRC)
    cst = lambda n: LoopIR.Const(g.int(n), T.int, SRC)
    forms = ["inner", "2*inner+1"] + (["outer+inner"] if same == "distinct names" else [])
    f = g.choose(forms, "index")
    if f == "inner":
        E = rd(B)
    elif f == "2*inner+1":
        E = LoopIR.BinOp("+", LoopIR.BinOp("*", LoopIR.Const(2, T.int, SRC), rd(B), T.index, SRC),
                         LoopIR.Const(1, T.int, SRC), T.index, SRC)
    else:
        E = LoopIR.BinOp("+", rd(A), rd(B), T.index, SRC)
    l0, h0, l1, h1 = cst("l0"), cst("h0"), cst("l1"), cst("h1")
    st = LoopIR.Assign(X, T.f32, [E], LoopIR.Const(1.0, T.f32, SRC), SRC)
    fb = LoopIR.For(B, l1, h1, [st], LoopIR.Seq(), SRC)
    fa = LoopIR.For(A, l0, h0, [fb], LoopIR.Seq(), SRC)
    fk = LoopIR.For(K, LoopIR.Const(0, T.int, SRC), LoopIR.Const(2, T.int, SRC), [fa], LoopIR.Seq(), SRC)
    ir = LoopIR.proc("p", [LoopIR.fnarg(X, T.Tensor([LoopIR.Const(64, T.int, SRC)], False, T.f32), DRAM, SRC)],
                     [], [fk], None, SRC)
    p = api.Procedure(ir)
    kc = p.body()[0]
    stc = kc.body()[0].body()[0].body()[0]
    return {"idx_expr": stc.idx()[0], "scope": kc,
            "__ghost__": {"A": A, "B": B, "E": E, "l0": l0, "h0": h0, "l1": l1, "h1": h1}}

@cir_.requires
def _(a):
    gh = a.ghost
    return And(gh.l0.val <= rho(gh.A), rho(gh.A) < gh.h0.val,
               gh.l1.val <= rho(gh.B), rho(gh.B) < gh.h1.val)

@cir_.ensures("every value of the index inside the loops lies in the inferred range")
def _(a):
    return in_gamma(a.result, ev(a.ghost.E))

cir_.note("loop nest of depth 2 below the scope; index forms inner, 2*inner+1, outer+inner; loop bounds symbolic literals")
