"""C01 - the side condition of buffer folding sees every access.

`resize_dim(.., fold=True)` (DoFoldBuffer) rewrites every access `x[e]` to
`x[e % size]`.  That preserves the final store only if no cell is reused while
an older value is still needed; `CheckFoldBuffer` decides this from the *access
window* of every statement ("An operation that cannot guarantee this raises an
error instead of returning a procedure").  Whatever the decision procedure does
with the windows, it can only be right if the window of a statement accounts
for EVERY access of the folded buffer the statement makes.

Contract of `CheckFoldBuffer.do_s` on an assignment / reduction (one step; the
real code is interpreted, the range analysis runs natively - C13):
    either SchedulingError, or the access window recorded for the enclosing
    scope covers the index range of every read of the buffer on the right-hand
    side and of the written location when the destination is the buffer.
Oracle: the accesses are collected by a walk of the statement written here
(reads in the right-hand side at any depth, including a right-hand side that
*is* the read; windows; the destination).

Shapes: right-hand side in {read, read + literal, product of two reads, negated
read, read of another buffer, literal}, destination in {other buffer, folded
buffer}, assignment / reduction, with an earlier statement in the scope or
not.  No integers are symbolic: the obligation is about which accesses are
seen, not about arithmetic.
"""
from __future__ import annotations
from pyvc.contract import contract
from exo.core.LoopIR import LoopIR, T
from exo.core.prelude import Sym, SrcInfo
from exo.rewrite import LoopIR_scheduling as LS
index_range_analysis_wrapper = LS.index_range_analysis_wrapper
from exo.rewrite.new_eff import SchedulingError

F = "src/exo/rewrite/LoopIR_scheduling.py"
SRC = SrcInfo("c01fold", 0)
X, Y, I = Sym("x"), Sym("y"), Sym("i")


def _i(off):
    rd = LoopIR.Read(I, [], T.index, SRC)
    return rd if off == 0 else LoopIR.BinOp("+", rd, LoopIR.Const(off, T.int, SRC), T.index, SRC)


def _rd(buf, off):
    return LoopIR.Read(buf, [_i(off)], T.f32, SRC)


RHS = {
    "the right-hand side is a read of the buffer": lambda: _rd(X, 0),
    "read + literal": lambda: LoopIR.BinOp("+", _rd(X, 0), LoopIR.Const(0.0, T.f32, SRC), T.f32, SRC),
    "product of two reads": lambda: LoopIR.BinOp("*", _rd(X, 0), _rd(X, 1), T.f32, SRC),
    "negated read": lambda: LoopIR.USub(_rd(X, 0), T.f32, SRC),
    "read of another buffer": lambda: _rd(Y, 0),
    "literal": lambda: LoopIR.Const(1.0, T.f32, SRC),
}


def accesses(s):
    """index expressions (dimension 0) of every access of X made by statement s, from the property"""
    out = []

    def e_(e):
        if isinstance(e, LoopIR.Read):
            if e.name is X:
                out.append(e.idx[0])
            for i in e.idx:
                e_(i)
        elif isinstance(e, LoopIR.BinOp):
            e_(e.lhs), e_(e.rhs)
        elif isinstance(e, LoopIR.USub):
            e_(e.arg)
        elif isinstance(e, LoopIR.WindowExpr):
            if e.name is X:
                w = e.idx[0]
                out.extend([w.lo, w.hi] if isinstance(w, LoopIR.Interval) else [w.pt])
        elif isinstance(e, LoopIR.Extern):
            for a in e.args:
                e_(a)
    e_(s.rhs)
    for i in s.idx:
        e_(i)
    if s.name is X:
        out.append(s.idx[0])
    return out


cfb = contract("C01", F, "CheckFoldBuffer.do_s")
cfb.native_modules.add("exo.rewrite.range_analysis")


@cfb.inputs
def _(g):
    kind = g.choose(sorted(RHS), "right-hand side")
    dst = g.choose(["another buffer", "the folded buffer"], "destination")
    red = g.choose([False, True], "reduction")
    ctor = LoopIR.Reduce if red else LoopIR.Assign
    s = ctor(Y if dst == "another buffer" else X, T.f32, [_i(4 if dst != "another buffer" else 0)], RHS[kind](), SRC)
    o = LS.CheckFoldBuffer(X, 0, g.choose([2, 8], "folded size"))
    o.enter_scope()
    if g.choose([False, True], "an earlier access in the scope"):
        o.access_window_per_scope[-1] = index_range_analysis_wrapper(_i(0))
    return {"self": o, "s": s, "__ghost__": {"kind": kind, "dst": dst}}


cfb.raises(SchedulingError, label="SchedulingError is the only refusal")


def _covers(win, r):
    j = win | r
    return j.lo == win.lo and j.hi == win.hi


@cfb.ensures("the access window of the scope covers every access of the folded buffer made by the statement")
def _(a):
    acc = accesses(a.s)
    win = a.self.access_window_per_scope[-1]
    if not acc:
        return True
    if win is None:
        return False
    return all(_covers(win, index_range_analysis_wrapper(e)) for e in acc)
