"""C13 - range analysis bounds contain every attainable value.

Contracts on src/exo/rewrite/range_analysis.py (and the stdlib mirror).
Postconditions are the property's sentence restricted to one function:
  v in gamma(a)  and  w in gamma(b)   ==>   v (+) w in gamma(a (+) b)
with gamma(IndexRange(base, lo, hi)) = [ev(base)+lo, ev(base)+hi] (None = unbounded)
and gamma(int c) = {c}.
"""
from __future__ import annotations
from pyvc.contract import contract
from pyvc import sym as S
from pyvc.sym import And, Or, Not, Implies, Ite
from contracts.ghost import ev, rho, opaque_expr, SRC
from exo.core.LoopIR import LoopIR, T
from exo.core.prelude import Sym
from exo.rewrite import range_analysis as RA
from exo.rewrite.range_analysis import IndexRange

F = "src/exo/rewrite/range_analysis.py"


# ----------------------------------------------------------------------------
# ghost: concretisation of a range / an int

def in_gamma(r, v):
    if isinstance(r, IndexRange):
        b = ev(r.base)
        lo_ok = True if r.lo is None else (b + r.lo <= v)
        hi_ok = True if r.hi is None else (v <= b + r.hi)
        return And(lo_ok, hi_ok)
    if isinstance(r, (int, S.SInt, S.SBool)):
        return v == r
    raise AssertionError(f"in_gamma: not a range: {r!r}")


# ----------------------------------------------------------------------------
# shapes

def g_base(g, name):
    k = g.choose(["zero", "const", "opaque"], name + ".base")
    if k == "zero":
        return RA.zero()
    if k == "const":
        return LoopIR.Const(g.int(name + "_basec"), T.index, SRC)
    return opaque_expr(g, name + "_base")


def g_range(g, name):
    base = g_base(g, name)
    lo = g.optint(name + "_lo")
    hi = g.optint(name + "_hi")
    return IndexRange(base, lo, hi)


def g_int_or_range(g, name):
    if g.choose(["int", "range"], name) == "int":
        return g.int(name)
    return g_range(g, name)


def binary(qual, opfn, other_gen, pre=None, exc=None):
    c = contract("C13", F, qual)

    @c.inputs
    def _(g):
        s = g_range(g, "a")
        o = other_gen(g, "b")
        pname = "other" if qual in ("IndexRange.__add__", "IndexRange.__sub__", "IndexRange.__or__") else "c"
        return {"self": s, pname: o, "__ghost__": {"v": g.int("v"), "w": g.int("w"), "o": o}}

    @c.requires
    def _(a):
        return And(in_gamma(a.self, a.ghost.v), in_gamma(a.ghost.o, a.ghost.w))

    if pre is not None:
        c.requires(pre)

    @c.ensures(f"gamma-soundness of {qual}")
    def _(a):
        return in_gamma(a.result, opfn(a.ghost.v, a.ghost.w))

    return c


binary("IndexRange.__add__", lambda v, w: v + w, g_int_or_range)
binary("IndexRange.__radd__", lambda v, w: w + v, lambda g, n: g.int(n))
binary("IndexRange.__sub__", lambda v, w: v - w, g_int_or_range)
binary("IndexRange.__rsub__", lambda v, w: w - v, lambda g, n: g.int(n))
binary("IndexRange.__mul__", lambda v, w: v * w, lambda g, n: g.int(n))
binary("IndexRange.__rmul__", lambda v, w: w * v, lambda g, n: g.int(n))

# Division and modulo: the front end (typecheck, see C03) only admits a
# positive literal divisor; on that envelope the result must be sound.  For
# c <= 0 the function must still not claim a bound that is wrong: Python's own
# floor semantics is the oracle there.
binary("IndexRange.__floordiv__", lambda v, w: S.floordiv(v, w), lambda g, n: g.int(n),
       pre=lambda a: a.c != 0)
binary("IndexRange.__mod__", lambda v, w: S.mod(v, w), lambda g, n: g.int(n),
       pre=lambda a: a.c > 0)

cneg = contract("C13", F, "IndexRange.__neg__")

@cneg.inputs
def _(g):
    return {"self": g_range(g, "a"), "__ghost__": {"v": g.int("v")}}

@cneg.requires
def _(a):
    return in_gamma(a.self, a.ghost.v)

@cneg.ensures("gamma-soundness of negation")
def _(a):
    return in_gamma(a.result, -a.ghost.v)


# join: gamma(a) U gamma(b) <= gamma(a | b)
cor = contract("C13", F, "IndexRange.__or__")

@cor.inputs
def _(g):
    s = g_range(g, "a")
    # the other operand either shares the base object (the only case in which
    # match_e can succeed on schematic leaves) or has its own base
    if g.choose(["same_base", "other_base"], "b.base") == "same_base":
        o = IndexRange(s.base, g.optint("b_lo"), g.optint("b_hi"))
    else:
        o = g_range(g, "b")
    return {"self": s, "other": o, "__ghost__": {"v": g.int("v")}}

@cor.requires
def _(a):
    return Or(in_gamma(a.self, a.ghost.v), in_gamma(a.other, a.ghost.v))

@cor.ensures("join contains both operands")
def _(a):
    return in_gamma(a.result, a.ghost.v)

# LoopIR_Compare.match_e on two expressions: modular, assumed contract
# "returns True only if the expressions are structurally equal", whose
# consequence used here is equality of value.
cor.callee("LoopIR_Compare.match_e",
           result=lambda g, a: g.bool("match_e"),
           ensures=lambda a: Implies(a.result, ev(a.e1) == ev(a.e2)),
           note="LoopIR_Compare.match_e(e1,e2) == True only if ev(e1) == ev(e2)")


cgs = contract("C13", F, "IndexRange.get_size")

@cgs.inputs
def _(g):
    return {"self": g_range(g, "a"), "__ghost__": {"v": g.int("v"), "w": g.int("w")}}

@cgs.requires
def _(a):
    return And(in_gamma(a.self, a.ghost.v), in_gamma(a.self, a.ghost.w))

@cgs.ensures("size bounds the spread of any two members")
def _(a):
    return Implies(a.result is not None, a.ghost.v - a.ghost.w + 1 <= a.result) \
        if a.result is not None else True

@cgs.ensures("size is None only for an unbounded side")
def _(a):
    return (a.result is None) == (a.self.lo is None or a.self.hi is None)
