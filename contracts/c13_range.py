"""C13 - range analysis bounds contain every attainable value.

Contracts on src/exo/rewrite/range_analysis.py (and the stdlib mirror).
Postconditions are the property's sentence restricted to one function:
  v in gamma(a)  and  w in gamma(b)   ==>   v (+) w in gamma(a (+) b)
with gamma(IndexRange(base, lo, hi)) = [ev(base)+lo, ev(base)+hi] (None = unbounded)
and gamma(int c) = {c}.
"""
from __future__ import annotations
from pyvc.contract import contract
from pyvc import sym as S
from pyvc.sym import And, Or, Not, Implies, Ite
from contracts.ghost import ev, rho, opaque_expr, SRC
from exo.core.LoopIR import LoopIR, T
from exo.core.prelude import Sym
from exo.rewrite import range_analysis as RA
from exo.rewrite.range_analysis import IndexRange

F = "src/exo/rewrite/range_analysis.py"


# ----------------------------------------------------------------------------
# ghost: concretisation of a range / an int

def in_gamma(r, v):
    if isinstance(r, IndexRange):
        b = ev(r.base)
        lo_ok = True if r.lo is None else (b + r.lo <= v)
        hi_ok = True if r.hi is None else (v <= b + r.hi)
        return And(lo_ok, hi_ok)
    if isinstance(r, (int, S.SInt, S.SBool)):
        return v == r
    raise AssertionError(f"in_gamma: not a range: {r!r}")


# ----------------------------------------------------------------------------
# shapes

def g_base(g, name):
    k = g.choose(["zero", "const", "opaque"], name + ".base")
    if k == "zero":
        return RA.zero()
    if k == "const":
        return LoopIR.Const(g.int(name + "_basec"), T.index, SRC)
    return opaque_expr(g, name + "_base")


def g_range(g, name):
    base = g_base(g, name)
    lo = g.optint(name + "_lo")
    hi = g.optint(name + "_hi")
    return IndexRange(base, lo, hi)


def g_int_or_range(g, name):
    if g.choose(["int", "range"], name) == "int":
        return g.int(name)
    return g_range(g, name)


def binary(qual, opfn, other_gen, pre=None, exc=None):
    c = contract("C13", F, qual)

    @c.inputs
    def _(g):
        s = g_range(g, "a")
        o = other_gen(g, "b")
        pname = "other" if qual in ("IndexRange.__add__", "IndexRange.__sub__", "IndexRange.__or__") else "c"
        return {"self": s, pname: o, "__ghost__": {"v": g.int("v"), "w": g.int("w"), "o": o}}

    @c.requires
    def _(a):
        return And(in_gamma(a.self, a.ghost.v), in_gamma(a.ghost.o, a.ghost.w))

    if pre is not None:
        c.requires(pre)

    @c.ensures(f"gamma-soundness of {qual}")
    def _(a):
        return in_gamma(a.result, opfn(a.ghost.v, a.ghost.w))

    return c


binary("IndexRange.__add__", lambda v, w: v + w, g_int_or_range)
binary("IndexRange.__radd__", lambda v, w: w + v, lambda g, n: g.int(n))
binary("IndexRange.__sub__", lambda v, w: v - w, g_int_or_range)
binary("IndexRange.__rsub__", lambda v, w: w - v, lambda g, n: g.int(n))
binary("IndexRange.__mul__", lambda v, w: v * w, lambda g, n: g.int(n))
binary("IndexRange.__rmul__", lambda v, w: w * v, lambda g, n: g.int(n))

# Division and modulo: the front end (typecheck, see C03) only admits a
# positive literal divisor; on that envelope the result must be sound.  For
# c <= 0 the function must still not claim a bound that is wrong: Python's own
# floor semantics is the oracle there.
binary("IndexRange.__floordiv__", lambda v, w: S.floordiv(v, w), lambda g, n: g.int(n),
       pre=lambda a: a.c != 0)
binary("IndexRange.__mod__", lambda v, w: S.mod(v, w), lambda g, n: g.int(n),
       pre=lambda a: a.c > 0)

cneg = contract("C13", F, "IndexRange.__neg__")

@cneg.inputs
def _(g):
    return {"self": g_range(g, "a"), "__ghost__": {"v": g.int("v")}}

@cneg.requires
def _(a):
    return in_gamma(a.self, a.ghost.v)

@cneg.ensures("gamma-soundness of negation")
def _(a):
    return in_gamma(a.result, -a.ghost.v)


# join: gamma(a) U gamma(b) <= gamma(a | b)
cor = contract("C13", F, "IndexRange.__or__")

@cor.inputs
def _(g):
    s = g_range(g, "a")
    # the other operand either shares the base object (the only case in which
    # match_e can succeed on schematic leaves) or has its own base
    if g.choose(["same_base", "other_base"], "b.base") == "same_base":
        o = IndexRange(s.base, g.optint("b_lo"), g.optint("b_hi"))
    else:
        o = g_range(g, "b")
    return {"self": s, "other": o, "__ghost__": {"v": g.int("v")}}

@cor.requires
def _(a):
    return Or(in_gamma(a.self, a.ghost.v), in_gamma(a.other, a.ghost.v))

@cor.ensures("join contains both operands")
def _(a):
    return in_gamma(a.result, a.ghost.v)

# LoopIR_Compare.match_e on two expressions: modular, assumed contract
# "returns True only if the expressions are structurally equal", whose
# consequence used here is equality of value.
cor.callee("LoopIR_Compare.match_e",
           result=lambda g, a: g.bool("match_e"),
           ensures=lambda a: Implies(a.result, ev(a.e1) == ev(a.e2)),
           note="LoopIR_Compare.match_e(e1,e2) == True only if ev(e1) == ev(e2)")


cgs = contract("C13", F, "IndexRange.get_size")

@cgs.inputs
def _(g):
    return {"self": g_range(g, "a"), "__ghost__": {"v": g.int("v"), "w": g.int("w")}}

@cgs.requires
def _(a):
    return And(in_gamma(a.self, a.ghost.v), in_gamma(a.self, a.ghost.w))

@cgs.ensures("size bounds the spread of any two members")
def _(a):
    return Implies(a.result is not None, a.ghost.v - a.ghost.w + 1 <= a.result) \
        if a.result is not None else True

@cgs.ensures("size is None only for an unbounded side")
def _(a):
    return (a.result is None) == (a.self.lo is None or a.self.hi is None)


# ----------------------------------------------------------------------------
# index_range_analysis.analyze_range : structural induction over expressions
#
# Shapes: one case per constructor of an index expression.  Sub-expressions are
# schematic leaves; the recursive calls on them are replaced by the induction
# hypothesis (this contract).  Well-typedness preconditions come from the
# front end (C03 typecheck rule): the divisor/modulus is a positive literal,
# and a product has a literal on one side (quasi-affine restriction).

def env_sound(env):
    cs = []
    for s, (lo, hi) in env.items():
        if lo is not None:
            cs.append(lo <= rho(s))
        if hi is not None:
            cs.append(rho(s) <= hi)
    return And(cs)


def g_env_for(g, sym):
    k = g.choose(["absent", "present"], "env")
    other = Sym("unrelated")
    env = {other: (g.optint("u_lo"), g.optint("u_hi"))}
    if k == "present":
        env[sym] = (g.optint("s_lo"), g.optint("s_hi"))
    return env


def wf_result(r):
    """Shape invariant of analysis results: an int, or a range whose base is
    the literal 0 or a non-literal expression (constants are always folded
    into lo/hi)."""
    if isinstance(r, IndexRange):
        return Or(RA.is_zero(r.base), not isinstance(r.base, LoopIR.Const)) \
            if isinstance(r.base, LoopIR.Const) else True
    return isinstance(r, (int, S.SInt))


def g_wf_range(g, name):
    if g.choose(["zero", "opaque"], name + ".base") == "zero":
        base = RA.zero()
    else:
        base = opaque_expr(g, name + "_base")
    return IndexRange(base, g.optint(name + "_lo"), g.optint(name + "_hi"))


def g_result_int_or_range(g, a):
    """Induction hypothesis on a sub-expression: a literal is reported as
    itself; anything else as an int or a well-formed range."""
    e = getattr(a, "expr", None)
    if isinstance(e, LoopIR.Const):
        return e.val
    if g.choose(["int", "range"], "rec") == "int":
        return g.int("rec")
    return g_wf_range(g, "rec")


def g_index_expr(g, depth_ops=("+", "-", "*", "/", "%")):
    """Top constructor of an index expression with schematic children."""
    sym = g.ghost["sym"]
    k = g.choose(["Read", "Const", "USub"] + ["BinOp" + o for o in depth_ops], "expr")
    if k == "Read":
        return LoopIR.Read(sym, [], T.index, SRC)
    if k == "Const":
        return LoopIR.Const(g.int("c"), T.int, SRC)
    if k == "USub":
        return LoopIR.USub(opaque_expr(g, "arg", not_ctors=()), T.index, SRC)
    op = k[5:]
    if op in ("/", "%"):
        lhs = opaque_expr(g, "lhs", not_ctors=())
        rhs = LoopIR.Const(g.pos("d"), T.int, SRC)
    elif op == "*":
        if g.choose(["const*e", "e*const"], "mulside") == "const*e":
            lhs = LoopIR.Const(g.int("k"), T.int, SRC)
            rhs = opaque_expr(g, "rhs", not_ctors=())
        else:
            lhs = opaque_expr(g, "lhs", not_ctors=())
            rhs = LoopIR.Const(g.int("k"), T.int, SRC)
    else:
        lhs = opaque_expr(g, "lhs", not_ctors=())
        rhs = opaque_expr(g, "rhs", not_ctors=())
    return LoopIR.BinOp(op, lhs, rhs, T.index, SRC)


car = contract("C13", F, "index_range_analysis.analyze_range")

def _outer(g):
    sym = Sym("s")
    g.ghost["sym"] = sym
    env = g_env_for(g, sym)
    g.ghost["env"] = env
    return {"expr": LoopIR.Read(sym, [], T.index, SRC), "env": env}

car.outer_inputs = _outer
car.native_entry = lambda g, fn, a: fn(a.expr, g.ghost["env"])

@car.inputs
def _(g):
    return {"expr": g_index_expr(g)}

@car.requires
def _(a):
    return env_sound(a.g.ghost["env"])

@car.ensures("value of the expression lies in the reported range")
def _(a):
    return in_gamma(a.result, ev(a.expr))

@car.ensures("a literal is reported as itself")
def _(a):
    if isinstance(a.expr, LoopIR.Const):
        return And(isinstance(a.result, (int, S.SInt)), a.result == a.expr.val)
    return True

@car.ensures("result is an int or a range with a folded base")
def _(a):
    return wf_result(a.result)

car.callee("index_range_analysis.analyze_range",
           result=g_result_int_or_range,
           ensures=lambda a: in_gamma(a.result, ev(a.expr)),
           assumed=False,
           note="induction hypothesis (structural recursion on sub-expressions)")


# constant_bound: (lo, hi) with lo <= ev(expr) <= hi whenever not None
ccb = contract("C13", F, "constant_bound")

@ccb.inputs
def _(g):
    sym = Sym("s")
    g.ghost["sym"] = sym
    env = g_env_for(g, sym)
    if g.choose(["int", "expr"], "kind") == "int":
        e = g.int("n")
    else:
        e = opaque_expr(g, "e", not_ctors=())
    return {"expr": e, "env": env}

@ccb.requires
def _(a):
    return env_sound(a.env)

def bound_ok(res, v):
    lo, hi = res
    return And(True if lo is None else lo <= v, True if hi is None else v <= hi)

@ccb.ensures("constant bounds contain the value")
def _(a):
    return bound_ok(a.result, ev(a.expr))

ccb.callee("index_range_analysis",
           result=g_result_int_or_range,
           ensures=lambda a: in_gamma(a.result, ev(a.expr)),
           assumed=False,
           note="contract of index_range_analysis = that of its nested analyze_range (proved above)")


# index_range_analysis itself just forwards to analyze_range
cira = contract("C13", F, "index_range_analysis")

@cira.inputs
def _(g):
    sym = Sym("s")
    g.ghost["sym"] = sym
    return {"expr": opaque_expr(g, "e", not_ctors=()), "env": g_env_for(g, sym)}

@cira.requires
def _(a):
    return env_sound(a.env)

@cira.ensures("value of the expression lies in the reported range")
def _(a):
    return in_gamma(a.result, ev(a.expr))

cira.callee("index_range_analysis.analyze_range",
            result=g_result_int_or_range,
            ensures=lambda a: in_gamma(a.result, ev(a.expr)),
            assumed=False, note="proved above")


# _check_range(r0, op, r1): True only if every value of r0 `op` every value of r1
ccr = contract("C13", F, "IndexRangeEnvironment._check_range")

@ccr.inputs
def _(g):
    r0 = (g.optint("lo0"), g.optint("hi0"))
    r1 = (g.optint("lo1"), g.optint("hi1"))
    op = g.choose(["<", "<=", "=="], "op")
    return {"range0": r0, "op": op, "range1": r1,
            "__ghost__": {"v": g.int("v"), "w": g.int("w")}}

@ccr.requires
def _(a):
    return And(bound_ok(a.range0, a.ghost.v), bound_ok(a.range1, a.ghost.w))

@ccr.ensures("a True answer holds for every pair of values")
def _(a):
    v, w = a.ghost.v, a.ghost.w
    rel = {"<": v < w, "<=": v <= w, "==": v == w}[a.op]
    return Implies(a.result, rel)


def _env_obj(g, env):
    # built by the real constructor (natively, on a proc without arguments) so
    # that every attribute the class keeps is present, then the scope chain is
    # replaced by the generated one
    from collections import ChainMap
    from exo.core.prelude import SrcInfo
    si = SrcInfo("c13", 0)
    e = RA.IndexRangeEnvironment(LoopIR.proc("p", [], [], [LoopIR.Pass(si)], None, si))
    e.env = ChainMap(env)
    g.ghost["env_state0"] = obj_state(e)
    return e


def obj_state(o):
    """structural fingerprint of the containers an object keeps (identity of the leaves)"""
    from collections import ChainMap
    def fp(v):
        if isinstance(v, ChainMap):
            return ("chain", tuple(fp(m) for m in v.maps))
        if isinstance(v, dict):
            return ("dict", tuple((id(k), fp(x)) for k, x in v.items()))
        if isinstance(v, (list, tuple)):
            return (type(v).__name__, tuple(fp(x) for x in v))
        if isinstance(v, set):
            return ("set", tuple(sorted(id(x) for x in v)))
        return id(v)
    return {k: fp(v) for k, v in vars(o).items()}


def query_pure(c):
    @c.ensures("the query leaves the environment as it found it (no state carried to later queries)")
    def _(a):
        return obj_state(a.self) == a.g.ghost["env_state0"]


def _cb_callee(c):
    c.callee("constant_bound",
             result=lambda g, a: (g.optint("cb_lo"), g.optint("cb_hi")),
             ensures=lambda a: bound_ok(a.result, ev(a.expr)),
             assumed=False, note="proved above")
    c.callee("IndexRangeEnvironment._check_range",
             result=lambda g, a: g.bool("chk"),
             ensures=lambda a: Implies(a.result, _rel_all(a)),
             assumed=False, note="proved above (instantiated at the two values)")


def _rel_all(a):
    # instantiation of _check_range's universally quantified contract at the
    # values of the two expressions whose bounds were passed in
    inst = a.__dict__.get("_inst")
    return True


cce = contract("C13", F, "IndexRangeEnvironment.check_expr_bound")

@cce.inputs
def _(g):
    sym = Sym("s")
    g.ghost["sym"] = sym
    env = g_env_for(g, sym)
    return {"self": _env_obj(g, env), "expr0": opaque_expr(g, "e0", not_ctors=()),
            "op": g.choose(["<", "<=", "=="], "op"),
            "expr1": opaque_expr(g, "e1", not_ctors=())}

@cce.requires
def _(a):
    return env_sound(dict(a.self.env))

@cce.ensures("a True answer is a valid comparison of the two expressions")
def _(a):
    v, w = ev(a.expr0), ev(a.expr1)
    rel = {"<": v < w, "<=": v <= w, "==": v == w}[a.op]
    return Implies(a.result, rel)

query_pure(cce)

cce.callee("constant_bound",
           result=lambda g, a: (g.optint("cb_lo"), g.optint("cb_hi")),
           ensures=lambda a: bound_ok(a.result, ev(a.expr)),
           assumed=False, note="proved above")


cce2 = contract("C13", F, "IndexRangeEnvironment.check_expr_bounds")

@cce2.inputs
def _(g):
    sym = Sym("s")
    g.ghost["sym"] = sym
    env = g_env_for(g, sym)
    ops = ["<", "<=", "=="]
    return {"self": _env_obj(g, env), "expr0": opaque_expr(g, "e0", not_ctors=()),
            "op0": g.choose(ops, "op0"), "expr1": opaque_expr(g, "e1", not_ctors=()),
            "op1": g.choose(ops, "op1"), "expr2": opaque_expr(g, "e2", not_ctors=())}

@cce2.requires
def _(a):
    return env_sound(dict(a.self.env))

@cce2.ensures("a True answer is a valid chain of comparisons")
def _(a):
    u, v, w = ev(a.expr0), ev(a.expr1), ev(a.expr2)
    r0 = {"<": u < v, "<=": u <= v, "==": u == v}[a.op0]
    r1 = {"<": v < w, "<=": v <= w, "==": v == w}[a.op1]
    return Implies(a.result, And(r0, r1))

query_pure(cce2)

cce2.callee("constant_bound",
            result=lambda g, a: (g.optint("cb_lo"), g.optint("cb_hi")),
            ensures=lambda a: bound_ok(a.result, ev(a.expr)),
            assumed=False, note="proved above")


# add_loop_iter: after `for sym in seq(lo, hi)` is entered the recorded range
# contains every value the iterator takes, i.e. every v with lo <= v < hi.
cal = contract("C13", F, "IndexRangeEnvironment.add_loop_iter")

@cal.inputs
def _(g):
    sym = Sym("s")
    g.ghost["sym"] = sym
    it = Sym("it")
    env = g_env_for(g, sym)
    return {"self": _env_obj(g, env), "sym": it,
            "lo_expr": opaque_expr(g, "lo", not_ctors=()),
            "hi_expr": opaque_expr(g, "hi", not_ctors=())}

@cal.requires
def _(a):
    return And(env_sound(dict(a.self.env)),
               ev(a.lo_expr) <= rho(a.sym), rho(a.sym) < ev(a.hi_expr))

@cal.ensures("environment stays sound with the iterator added")
def _(a):
    return And(a.sym in a.self.env, env_sound(dict(a.self.env)))

cal.callee("constant_bound",
           result=lambda g, a: (g.optint("cb_lo"), g.optint("cb_hi")),
           ensures=lambda a: bound_ok(a.result, ev(a.expr)),
           assumed=False, note="proved above")


# ----------------------------------------------------------------------------
# partial_eval_with_range: eliminate one variable from the base, given its range
# (used by fold_buffer's window computation).  gamma-soundness: every value of
# `self` under a valuation whose `var` lies in `rng` is a value of the result.

cpe = contract("C13", F, "IndexRange.partial_eval_with_range")
_PV, _PO = Sym("i"), Sym("j")

@cpe.inputs
def _(g):
    rd = lambda s: LoopIR.Read(s, [], T.index, SRC)
    k = g.choose(["var", "k*var", "k*var+other", "other"], "base")
    if k == "var":
        base = rd(_PV)
    elif k == "k*var":
        base = LoopIR.BinOp("*", LoopIR.Const(g.int("k"), T.int, SRC), rd(_PV), T.index, SRC)
    elif k == "k*var+other":
        base = LoopIR.BinOp("+", LoopIR.BinOp("*", LoopIR.Const(g.int("k"), T.int, SRC), rd(_PV), T.index, SRC),
                            rd(_PO), T.index, SRC)
    else:
        base = rd(_PO)
    s = IndexRange(base, g.optint("lo"), g.optint("hi"))
    rb = RA.zero() if g.choose(["zero", "sym"], "rng.base") == "zero" else rd(Sym("r"))
    rng = IndexRange(rb, g.optint("rlo"), g.optint("rhi"))
    return {"self": s, "var": _PV, "rng": rng, "__ghost__": {"v": g.int("v")}}

@cpe.requires
def _(a):
    return And(in_gamma(a.self, a.ghost.v), in_gamma(a.rng, rho(a.var)))

@cpe.ensures("values of the range are kept when a variable is replaced by its range")
def _(a):
    return in_gamma(a.result, a.ghost.v)


# ----------------------------------------------------------------------------
# arg_range_analysis: fast path and the binary searches of the slow path

cara = contract("C13", F, "arg_range_analysis")
_ARG = Sym("n")

def _ara_proc():
    from exo.core.memory import DRAM
    return LoopIR.proc("p", [LoopIR.fnarg(_ARG, T.size, None, SRC)], [], [LoopIR.Pass(SRC)], None, SRC)

@cara.inputs
def _(g):
    ty = g.choose([T.size, T.index], "arg type")
    p = _ara_proc()
    return {"proc": p, "arg": LoopIR.fnarg(_ARG, ty, None, SRC), "fast": g.choose([True, False], "fast")}

@cara.requires
def _(a):
    # a size argument is positive (front end: sizes are asserted > 0)
    return rho(_ARG) >= 1 if isinstance(a.arg.type, T.Size) else True

@cara.ensures("the reported argument range contains the argument's value")
def _(a):
    return bound_ok(a.result, rho(_ARG))

cara.callee("Check_ExprBound",
            result=lambda g, a: g.bool("bound_holds"),
            ensures=lambda a: Implies(a.result, {"<": ev(a.expr) < a.value, "<=": ev(a.expr) <= a.value,
                                                 ">": ev(a.expr) > a.value, ">=": ev(a.expr) >= a.value,
                                                 "==": ev(a.expr) == a.value}[a.op]),
            assumed=True,
            note="Check_ExprBound(proc, stmts, e, op, v, exception=False) returns True only if `e op v` holds for "
                 "every input satisfying the procedure's assertions (SMT-based; conditions under C01(b))")
for _q, _inv in (("arg_range_analysis.binary_search_lower_bound",
                  lambda env: True if env.result is None else rho(_ARG) >= env.result),
                 ("arg_range_analysis.binary_search_upper_bound",
                  lambda env: True if env.result is None else rho(_ARG) <= env.result)):
    cara.loop(_q, 0, invariant=_inv,
              havoc={"left": lambda g: g.int("left"), "right": lambda g: g.int("right"),
                     "result": lambda g: g.optint("result")},
              decreases=lambda env: env.right - env.left + 1)


# IndexRangeEnvironment.__init__: the initial environment is sound
cinit = contract("C13", F, "IndexRangeEnvironment.__init__")
_N2, _K2 = Sym("n"), Sym("k")

@cinit.inputs
def _(g):
    args = [LoopIR.fnarg(_N2, T.size, None, SRC), LoopIR.fnarg(_K2, T.index, None, SRC)]
    pred = LoopIR.BinOp("<=", LoopIR.Read(_N2, [], T.size, SRC), LoopIR.Const(g.int("ub"), T.int, SRC), T.bool, SRC)
    preds = [pred] if g.choose([False, True], "has assertion") else []
    p = LoopIR.proc("p", args, preds, [LoopIR.Pass(SRC)], None, SRC)
    return {"self": object.__new__(RA.IndexRangeEnvironment), "proc": p, "fast": g.choose([True, False], "fast")}

@cinit.requires
def _(a):
    return rho(_N2) >= 1

@cinit.ensures("every recorded argument range contains the argument's value")
def _(a):
    return env_sound(dict(a.self.env))

cinit.callee("arg_range_analysis",
             result=lambda g, a: (g.optint("ar_lo"), g.optint("ar_hi")),
             ensures=lambda a: bound_ok(a.result, rho(a.arg.name)),
             requires=lambda a: rho(a.arg.name) >= 1 if isinstance(a.arg.type, T.Size) else True,
             assumed=False, note="proved above")


# get_stride_of: coefficient of a variable in a linear base
cgso = contract("C13", F, "IndexRange.get_stride_of")
_SV, _SO = Sym("i"), Sym("j")

@cgso.inputs
def _(g):
    rd = lambda s: LoopIR.Read(s, [], T.index, SRC)
    k = g.choose(["i", "j", "c*i", "i*c", "c*i+j", "j-i", "-(i)", "c*i+d*i"], "base")
    cst = lambda n: LoopIR.Const(g.int(n), T.int, SRC)
    mul = lambda a, b: LoopIR.BinOp("*", a, b, T.index, SRC)
    base = {"i": lambda: rd(_SV), "j": lambda: rd(_SO), "c*i": lambda: mul(cst("c"), rd(_SV)),
            "i*c": lambda: mul(rd(_SV), cst("c")),
            "c*i+j": lambda: LoopIR.BinOp("+", mul(cst("c"), rd(_SV)), rd(_SO), T.index, SRC),
            "j-i": lambda: LoopIR.BinOp("-", rd(_SO), rd(_SV), T.index, SRC),
            "-(i)": lambda: LoopIR.USub(rd(_SV), T.index, SRC),
            "c*i+d*i": lambda: LoopIR.BinOp("+", mul(cst("c"), rd(_SV)), mul(cst("d"), rd(_SV)), T.index, SRC)}[k]()
    return {"self": IndexRange(base, 0, 0), "idx": _SV, "__ghost__": {"delta": g.int("delta")}}

@cgso.ensures("moving the variable by delta moves the base by stride * delta")
def _(a):
    # value of the base at rho[i := rho(i) + delta] minus its value at rho
    d = a.ghost.delta
    def at(e, shift):
        if isinstance(e, LoopIR.Read):
            return rho(e.name) + (shift if e.name is _SV else 0)
        if isinstance(e, LoopIR.Const):
            return e.val
        if isinstance(e, LoopIR.USub):
            return -at(e.arg, shift)
        l, r = at(e.lhs, shift), at(e.rhs, shift)
        return {"+": l + r, "-": l - r, "*": l * r}[e.op]
    return at(a.self.base, d) - at(a.self.base, 0) == a.result * d
