"""Ghost vocabulary shared by the C19 (signature / annotation utilities) and C04
(well-formedness of scheduled procedures) contracts.

* `same(a, b)`       field-wise equality of two LoopIR trees ("frame" oracle).
                     Integer / boolean leaves may be symbolic: the answer is then
                     a term (no forking).  Symbols, memories, configs and callee
                     procedures are compared by identity, `srcinfo` is ignored.
* `rebuild(n, f)`    generic functional map over an ADT tree (used to write the
                     *expected* result independently of LoopIR_Rewrite and of the
                     cursor plumbing, both of which are under test).
* `with_symbolic_literals`  turns the integer literals of a real (front-end built)
                     procedure into symbolic leaves.
* `scope_report(p)`  the scoping checker of C04: every use of a symbol lies in
                     the scope of exactly one declaration, no symbol is declared
                     twice (neither in one scope chain nor, for the copying
                     rewrites, anywhere in the procedure).
* recorders for the Check_* call protocol.

Nothing here calls into exo.rewrite.*: the oracles only use the node classes.
"""
from __future__ import annotations
import attrs
from pyvc import sym as S
from pyvc.sym import SInt, SBool, And, Or, Not, Implies
from exo.core.LoopIR import LoopIR, T
from exo.core.prelude import Sym, SrcInfo
from asdl_adt.adt import _AsdlAdtBase

SRC = SrcInfo("ghost", 0)


def is_node(x):
    return isinstance(x, _AsdlAdtBase)


_FIELDS = {}


def fields(n):
    k = type(n)
    if k not in _FIELDS:
        _FIELDS[k] = tuple(a.name for a in attrs.fields(k))
    return _FIELDS[k]


# ----------------------------------------------------------------------------
# field-wise equality

def same(a, b, ignore=("srcinfo",)):
    """field-wise equality (a python bool, or a term when leaves are symbolic)"""
    if a is b:
        return True
    if S.is_sym(a) or S.is_sym(b):
        ab, bb = isinstance(a, (bool, SBool)), isinstance(b, (bool, SBool))
        if ab != bb:
            return False
        if not isinstance(a, (int, SInt, SBool)) or not isinstance(b, (int, SInt, SBool)):
            return False
        return a == b
    if isinstance(a, list) or isinstance(b, list):
        if not (isinstance(a, list) and isinstance(b, list)) or len(a) != len(b):
            return False
        cs = []
        for x, y in zip(a, b):
            r = same(x, y, ignore)
            if r is False:
                return False
            cs.append(r)
        return And(cs)
    if isinstance(a, LoopIR.proc) or isinstance(b, LoopIR.proc):
        # only reached for the *callee* of a Call (the root is compared by same_proc)
        return a is b
    if is_node(a) or is_node(b):
        if type(a) is not type(b):
            return False
        cs = []
        for f in fields(a):
            if f in ignore:
                continue
            r = same(getattr(a, f), getattr(b, f), ignore)
            if r is False:
                return False
            cs.append(r)
        return And(cs)
    if isinstance(a, Sym) or isinstance(b, Sym):
        return a is b
    if isinstance(a, bool) != isinstance(b, bool):
        return False
    if isinstance(a, (int, float, str)) and isinstance(b, (int, float, str)):
        return type(a) is type(b) and a == b
    if a is None or b is None:
        return False
    return a is b or a == b


def same_proc(p, q, ignore=("srcinfo",)):
    """field-wise equality of two procedures (all six fields)"""
    if not (isinstance(p, LoopIR.proc) and isinstance(q, LoopIR.proc)):
        return False
    cs = []
    for f in fields(p):
        if f in ignore:
            continue
        r = same(getattr(p, f), getattr(q, f), ignore)
        if r is False:
            return False
        cs.append(r)
    return And(cs)


def differing_fields(p, q):
    """names of the top-level fields in which two nodes of one class differ
    (concrete answer: a field whose equality is not *definitely* true counts)"""
    return [f for f in fields(p) if f != "srcinfo" and same(getattr(p, f), getattr(q, f)) is not True]


def first_difference(a, b, path="root"):
    """human-readable location of the first difference (for replay output)"""
    if a is b:
        return None
    if isinstance(a, list) and isinstance(b, list):
        if len(a) != len(b):
            return f"{path}: lengths {len(a)} != {len(b)}"
        for i, (x, y) in enumerate(zip(a, b)):
            d = first_difference(x, y, f"{path}[{i}]")
            if d:
                return d
        return None
    if is_node(a) and is_node(b) and not isinstance(a, LoopIR.proc):
        if type(a) is not type(b):
            return f"{path}: {type(a).__name__} != {type(b).__name__}"
        for f in fields(a):
            if f == "srcinfo":
                continue
            d = first_difference(getattr(a, f), getattr(b, f), f"{path}.{f}")
            if d:
                return d
        return None
    r = same(a, b)
    return None if r is True else f"{path}: {a!r} != {b!r}"


# ----------------------------------------------------------------------------
# generic functional map

def rebuild(n, f):
    """Top-down map: `f(node)` returns a replacement (not descended into) or
    None (rebuild from the mapped children).  Unchanged sub-trees are shared.
    The callee of a Call is never entered."""
    if isinstance(n, list):
        out = [rebuild(x, f) for x in n]
        return out if any(x is not y for x, y in zip(out, n)) else n
    if not is_node(n):
        return n
    r = f(n)
    if r is not None:
        return r
    ch = {}
    for fld in fields(n):
        v = getattr(n, fld)
        if isinstance(v, LoopIR.proc):
            continue
        if isinstance(v, list) or is_node(v):
            nv = rebuild(v, f)
            if nv is not v:
                ch[fld] = nv
    return n.update(**ch) if ch else n


def rebuild_proc(p, f):
    """rebuild every field of a procedure (the root itself is not offered to f)"""
    ch = {}
    for fld in ("args", "preds", "body"):
        v = getattr(p, fld)
        nv = rebuild(v, f)
        if nv is not v:
            ch[fld] = nv
    return p.update(**ch) if ch else p


def walk(n, path=()):
    """(path, node) for every ADT node below n, pre-order; callee procedures of
    Call statements are not entered"""
    if isinstance(n, list):
        for i, x in enumerate(n):
            yield from walk(x, path + (i,))
        return
    if not is_node(n):
        return
    yield path, n
    for fld in fields(n):
        v = getattr(n, fld)
        if isinstance(v, LoopIR.proc) and path != ():
            continue
        if isinstance(v, list) or is_node(v):
            yield from walk(v, path + (fld,))


def nodes_of(p, cls):
    return [n for _, n in walk(p) if isinstance(n, cls)]


# ----------------------------------------------------------------------------
# symbolic literals

def with_symbolic_literals(g, p, names=None, only=None, positive=()):
    """Replace the integer literals of index type in `p` by symbolic leaves:
    one leaf per distinct literal value (`lit<value>`), so that equal literals
    stay equal.  `only`: restrict to these values.  `positive`: values whose
    leaf is assumed >= 1 (extents).  Returns (new proc, {value: leaf})."""
    leaves = {}

    def leaf(v):
        if v not in leaves:
            nm = (names or {}).get(v, f"lit{v}")
            leaves[v] = g.pos(nm) if v in positive else g.int(nm)
        return leaves[v]

    def f(n):
        if isinstance(n, LoopIR.Const) and isinstance(n.val, int) and not isinstance(n.val, bool) \
                and n.type in (T.int, T.index, T.size):
            if only is not None and n.val not in only:
                return None
            return LoopIR.Const(leaf(n.val), n.type, n.srcinfo)
        return None

    return rebuild_proc(p, f), leaves


# ----------------------------------------------------------------------------
# scoping checker (C04)

class ScopeReport:
    def __init__(self):
        self.unbound = []      # (sym, where)  use with no declaration in scope
        self.shadow = []       # (sym, where)  declared again inside its own scope
        self.duplicate = []    # (sym, where)  declared more than once anywhere
        self.binders = []      # every binder occurrence, in order

    def ok(self, unique_binders=False):
        return not self.unbound and not self.shadow and not (unique_binders and self.duplicate)

    def describe(self):
        out = []
        for kind in ("unbound", "shadow", "duplicate"):
            for s, w in getattr(self, kind):
                out.append(f"{kind}: {s!r} at {w}")
        return out


def scope_report(p):
    """Walk the procedure with an explicit scope chain.  Binders: arguments
    (whole procedure), Alloc / WindowStmt (rest of the enclosing block), For
    iterator (loop body).  Uses: every Read / WindowExpr / StrideExpr name,
    every Assign / Reduce destination, every symbol inside a type (extents,
    window source) - also in argument types and assertions."""
    rep = ScopeReport()
    seen = {}

    def declare(env, s, where):
        rep.binders.append((s, where))
        if s in env:
            rep.shadow.append((s, where))
        if s in seen:
            rep.duplicate.append((s, where))
        seen[s] = where
        return env | {s}

    def use(env, s, where):
        if s not in env:
            rep.unbound.append((s, where))

    def do_t(env, t, where):
        if isinstance(t, T.Tensor):
            for e in t.hi:
                do_e(env, e, where + ".type")
        elif isinstance(t, T.Window):
            use(env, t.src_buf, where + ".type.src_buf")
            do_t(env, t.as_tensor, where)

    def do_w(env, w, where):
        if isinstance(w, LoopIR.Interval):
            do_e(env, w.lo, where)
            do_e(env, w.hi, where)
        else:
            do_e(env, w.pt, where)

    def do_e(env, e, where):
        if isinstance(e, LoopIR.Read):
            use(env, e.name, where)
            for i in e.idx:
                do_e(env, i, where)
            do_t(env, e.type, where)
        elif isinstance(e, LoopIR.WindowExpr):
            use(env, e.name, where)
            for w in e.idx:
                do_w(env, w, where)
        elif isinstance(e, LoopIR.StrideExpr):
            use(env, e.name, where)
        elif isinstance(e, LoopIR.BinOp):
            do_e(env, e.lhs, where)
            do_e(env, e.rhs, where)
        elif isinstance(e, LoopIR.USub):
            do_e(env, e.arg, where)
        elif isinstance(e, LoopIR.Extern):
            for x in e.args:
                do_e(env, x, where)

    def do_block(env, stmts, where):
        for k, s in enumerate(stmts):
            w = f"{where}[{k}]"
            if isinstance(s, (LoopIR.Assign, LoopIR.Reduce)):
                use(env, s.name, w)
                for i in s.idx:
                    do_e(env, i, w)
                do_e(env, s.rhs, w)
            elif isinstance(s, LoopIR.WriteConfig):
                do_e(env, s.rhs, w)
            elif isinstance(s, LoopIR.If):
                do_e(env, s.cond, w)
                do_block(env, s.body, w + ".body")
                do_block(env, s.orelse, w + ".orelse")
            elif isinstance(s, LoopIR.For):
                do_e(env, s.lo, w)
                do_e(env, s.hi, w)
                do_block(declare(env, s.iter, w), s.body, w + ".body")
            elif isinstance(s, LoopIR.Alloc):
                do_t(env, s.type, w)
                env = declare(env, s.name, w)
            elif isinstance(s, LoopIR.WindowStmt):
                do_e(env, s.rhs, w)
                env = declare(env, s.name, w)
            elif isinstance(s, LoopIR.Call):
                for x in s.args:
                    do_e(env, x, w)

    env = frozenset()
    for k, a in enumerate(p.args):
        # argument types may mention earlier *and* later size arguments
        env = declare(env, a.name, f"args[{k}]")
    for k, a in enumerate(p.args):
        do_t(env, a.type, f"args[{k}]")
    for k, e in enumerate(p.preds):
        do_e(env, e, f"preds[{k}]")
    do_block(env, p.body, "body")
    return rep


# ----------------------------------------------------------------------------
# call-protocol recorders

class Events:
    """ghost log of the calls made to the Check_* functions on one path"""
    def __init__(self):
        self.log = []

    def add(self, name, **kw):
        self.log.append((name, kw))

    def calls(self, name):
        return [kw for n, kw in self.log if n == name]


def events(g):
    return g.ghost.setdefault("events", Events())


def recorder(name, params):
    """callee `result` function that logs the call's arguments under `name`"""
    def result(g, a):
        events(g).add(name, **{p: getattr(a, p) for p in params})
        return None
    return result


def patched(module, stubs):
    """context manager for replay: temporarily replace module-level functions"""
    import contextlib

    @contextlib.contextmanager
    def cm():
        old = {k: getattr(module, k) for k in stubs}
        try:
            for k, v in stubs.items():
                setattr(module, k, v)
            yield
        finally:
            for k, v in old.items():
                setattr(module, k, v)
    return cm()


# ----------------------------------------------------------------------------
# cursors to nodes of a concrete tree

def path_of(root, node):
    for path, n in walk(root):
        if n is node:
            return path
    raise KeyError(f"node {node!r} not in tree")


def cursor_path(path):
    """walk()-path -> internal_cursors path [(attr, idx | None)]"""
    out, i = [], 0
    while i < len(path):
        attr = path[i]
        if i + 1 < len(path) and isinstance(path[i + 1], int):
            out.append((attr, path[i + 1]))
            i += 2
        else:
            out.append((attr, None))
            i += 1
    return out


def cursor_to(root, node):
    from exo.core import internal_cursors as IC
    return IC.Node(root, cursor_path(path_of(root, node)))


def find_stmt(root, pred):
    """first statement (pre-order) satisfying pred"""
    for _, n in walk(root):
        if isinstance(n, LoopIR.stmt) and pred(n):
            return n
    raise KeyError("no such statement")


def find_alloc(root, name):
    return find_stmt(root, lambda s: isinstance(s, LoopIR.Alloc) and s.name.name() == name)


def find_loop(root, name):
    return find_stmt(root, lambda s: isinstance(s, LoopIR.For) and s.iter.name() == name)


def find_arg(root, name):
    for a in root.args:
        if a.name.name() == name:
            return a
    raise KeyError(name)


# ----------------------------------------------------------------------------
# oracle shared by C19 (transpose) and C04 (rearrange_dim)

def rearrange_expected(p, name, perm):
    """shape, every access (read / write / reduce / window) and every
    stride(name, d) - body and assertions - permuted by `perm`:
    new[k] = old[perm[k]];  stride(name, d) -> stride(name, perm.index(d))"""
    def pm(xs):
        return [xs[i] for i in perm]

    def f(n):
        if isinstance(n, (LoopIR.fnarg, LoopIR.Alloc)) and n.name is name:
            return n.update(type=T.Tensor(pm(n.type.hi), n.type.is_window, n.type.type))
        if isinstance(n, (LoopIR.Read, LoopIR.WindowExpr)) and n.name is name and len(n.idx) > 0:
            return n.update(idx=pm(n.idx))
        if isinstance(n, (LoopIR.Assign, LoopIR.Reduce)) and n.name is name:
            return n.update(idx=pm(n.idx), rhs=rebuild(n.rhs, f))
        if isinstance(n, LoopIR.StrideExpr) and n.name is name:
            return n.update(dim=perm.index(n.dim))
        return None

    return rebuild_proc(p, f)
