"""C05 - replace only substitutes true instances of the callee (thin layer).

Property sentences used (properties.jsonl, C05): "replace(p, block, f) succeeds
only when ... the inferred windows, sizes and strides satisfy f's signature and
assertions ..."; anchors: "linear-integer solving of the collected equations
(UEq.problem.solve)", "DoReplace builds the call, re-checks aliasing".

What is under contract (src/exo/rewrite/LoopIR_unification.py):

  UEq.problem.solve - the linear-integer lowering and the read-back.
    Semantics: knowns take arbitrary integer values rho; the value of a hole h
    is  sum_k vec_h[k]*rho_k + vec_h[N]  for the coefficient vector vec_h the
    SMT model assigns to h; uev(e) is the value of an affine expression.
    PySMT term constructors (`SMT.Int/Symbol/Plus/Times/Equals/And/Or/GE/LT/
    FALSE`) are interpreted as the operations they construct (sub-engine B);
    `solver.is_sat(phi)` is a modular callee: True only with a model of phi,
    which `get_py_values` then reports.
    (1) solve.lower_e   structural induction (sub-expressions are schematic):
          sum_k result[k]*rho_k + result[N] == uev(e)   for every rho,
          UnificationError only for a variable that is neither known nor hole.
    (2) solve.lower_p   induction over Conj/Disj/Cases, Eq via (1):
          result ==> the predicate holds for rho        (sound lowering),
          Cases: exactly the case named by the case variable, which is in range.
    (3) solve           with (2) as callee and the solver as oracle: a returned
          solution denotes, for every hole, the model's value (coefficient 0
          skipped, 1 bare, else Scale) and every predicate holds for it.
    (4) solve [whole]   no modular callee: small concrete problem shapes
          (symbolic coefficients) through the real lower_p/lower_e/normalize;
          the returned solution satisfies every equation for every rho and the
          reported case is in range and is a case that holds.  Replayable
          natively with the real PySMT solver.
    (5) UEq.expr.normalize  value preservation on expression trees of depth <= 2
          (used as a callee fact by (2)).

  DoReplace - protocol: the call is built on the *original* sub-procedure with
    the arguments unification solved for, replaces exactly the matched
    statements, `Check_Aliasing` is run on the result, and - obligation taken
    from the property - the callee's assertions and size/stride requirements
    are checked at the new call site.  The last clause FAILS on the unchanged
    tree (F9, known finding: see known_findings.json).
"""
from __future__ import annotations
import os
import z3

from pyvc.contract import contract
from pyvc import sym as S
from pyvc.sym import And, Or, Not, Implies, SInt, SBool
from pyvc.interp import ProgExc, Opaque
from contracts.ghost import _opaque_class, SRC, rho
from exo.core.LoopIR import LoopIR, T
from exo.core.prelude import Sym
from exo.core.memory import DRAM

F = "src/exo/rewrite/LoopIR_unification.py"

ASSUMPTIONS = [
    "C05: the structural matcher (Unification.unify_stmts / unify_e / unify_accesses / ..., the BufVar window case "
    "split, to_ueq / from_ueq) is NOT covered: that the equations handed to UEq.problem.solve say 'the block is an "
    "instance of the callee body' is assumed",
    "C05: PySMT term constructors denote the operations they construct; solver.is_sat(phi) returns True only if "
    "get_py_values/get_py_value then report a model of phi (PySMT + z3 back end, assumed)",
    "C05: Sym ordering used by UEq.expr.normalize is a strict total order (prelude.Sym.__lt__, by id)",
    "C05: Alpha_Rename(subproc).result() is an alpha-equivalent copy of the callee; Get_Live_Variables lists the "
    "variables in scope at the block (not covered)",
    "C05: inlining the new call gives back an equivalent program (the property's last sentence) is not covered",
]


def LU():
    import exo.rewrite.LoopIR_unification as m
    return m


def mk(cls, *args):
    """ADT node whose integer fields may be symbolic (no field validation)"""
    from pyvc.interp import construct_adt, deep_concrete
    if all(deep_concrete(x) for x in args):
        return cls(*args)
    return construct_adt(cls, list(args), {})


def UEq():
    return LU().UEq


# ----------------------------------------------------------------------------
# semantic model of the PySMT layer (symbolic runs only; concrete runs and the
# replay use the real PySMT through the same proxy)

class Tm:
    """a PySMT term, represented by its value"""
    __slots__ = ("val",)

    def __init__(self, val):
        self.val = val

    def __repr__(self):
        return f"Tm({self.val})"


def _symtab():
    return S.cur().ghost.setdefault("smt_symbols", {})


class SemSMT:
    INT = "INT"
    BOOL = "BOOL"

    @staticmethod
    def Symbol(name, typ=None):
        tab = _symtab()
        if name not in tab:
            tab[name] = Tm(S.cur().fresh_int("smt_" + str(name)))
        return tab[name]

    @staticmethod
    def Int(c):
        return Tm(c)

    @staticmethod
    def Plus(*xs):
        r = 0
        for x in xs:
            r = r + x.val
        return Tm(r)

    @staticmethod
    def Times(*xs):
        r = 1
        for x in xs:
            r = r * x.val
        return Tm(r)

    @staticmethod
    def Equals(x, y):
        return Tm(x.val == y.val)

    @staticmethod
    def GE(x, y):
        return Tm(x.val >= y.val)

    @staticmethod
    def LT(x, y):
        return Tm(x.val < y.val)

    @staticmethod
    def And(*xs):
        return Tm(S.And([x.val for x in xs]))

    @staticmethod
    def Or(*xs):
        return Tm(S.Or([x.val for x in xs]))

    @staticmethod
    def FALSE():
        return Tm(False)

    @staticmethod
    def TRUE():
        return Tm(True)

    @staticmethod
    def Bool(b):
        return Tm(bool(b))

    @staticmethod
    def Not(x):
        return Tm(S.Not(x.val))

    @staticmethod
    def Minus(x, y):
        return Tm(x.val - y.val)

    @staticmethod
    def LE(x, y):
        return Tm(x.val <= y.val)

    @staticmethod
    def GT(x, y):
        return Tm(x.val > y.val)


class SemSolver:
    """oracle: is_sat(phi) answers True only together with a model of phi; the
    model is the valuation of the symbolic term values on this path"""
    def is_sat(self, phi):
        ctx = S.cur()
        ans = ctx.fresh_bool("is_sat")
        ctx.ghost["is_sat"] = ans
        ctx.ghost["prob_pred"] = phi.val
        if ans:
            ctx.assume(phi.val)
            return True
        return False

    def get_py_values(self, syms):
        return {s: s.val for s in syms}

    def get_py_value(self, s):
        return s.val


class _SMTProxy:
    """stands for the module global `SMT` of LoopIR_unification: the semantic
    model on symbolic paths, the real pysmt.shortcuts otherwise"""
    def __init__(self, real):
        object.__setattr__(self, "_real", real)

    def __getattr__(self, name):
        if S._CTX is not None and not S._CTX.concrete:
            return getattr(SemSMT, name)
        return getattr(self._real, name)


def install_model(g=None):
    m = LU()
    if not isinstance(m.SMT, _SMTProxy):
        m.SMT = _SMTProxy(m.SMT)
        real_factory = m._get_smt_solver

        def _get_smt_solver():
            if S._CTX is not None and not S._CTX.concrete:
                return SemSolver()
            return real_factory()
        m._get_smt_solver = _get_smt_solver


# ----------------------------------------------------------------------------
# the problem frame: holes, knowns, valuation

HOLES = [Sym("h1"), Sym("h2")]
KNOWNS = [Sym("k1"), Sym("k2")]
OTHER = Sym("z")
CASEVAR = Sym("which")


def frame(g, max_holes=2):
    nk = g.choose([0, 1, 2], "knowns")
    nh = g.choose(list(range(1, max_holes + 1)), "holes")
    return HOLES[:nh], KNOWNS[:nk]


def tm_val(t):
    return t.val if isinstance(t, Tm) else t


def dot(vec, knowns):
    r = tm_val(vec[len(knowns)])
    for k, c in zip(knowns, vec):
        r = r + tm_val(c) * rho(k)
    return r


def hole_vec(h, knowns):
    tab = _symtab()
    return [tab[f"{repr(h)}_{repr(k)}"] for k in knowns] + [tab[f"{repr(h)}_const"]]


def opaque_uexpr(g, name):
    """an arbitrary affine expression (symbolic runs) / a small concrete one"""
    v = g.int("ev_" + name)
    if g.concrete:
        return UEq().Const(v)
    return _opaque_class(UEq().expr)(name, v, None, ())


def opaque_upred(g, name):
    b = g.bool("holds_" + name)
    if g.concrete:
        return UEq().Eq(UEq().Const(0), UEq().Const(0 if b else 1))
    return _opaque_class(UEq().pred)(name, b, None, ())


def uev(e, holes_val):
    """value of an affine expression; holes_val(h) gives the value of a hole"""
    U = UEq()
    if isinstance(e, Opaque):
        return e._pyvc_ev
    if isinstance(e, U.Const):
        return e.val
    if isinstance(e, U.Var):
        if any(e.name is h for h in HOLES):
            return holes_val(e.name)
        return rho(e.name)
    if isinstance(e, U.Add):
        return uev(e.lhs, holes_val) + uev(e.rhs, holes_val)
    if isinstance(e, U.Scale):
        return e.coeff * uev(e.e, holes_val)
    raise AssertionError(f"uev: {type(e).__name__}")


def holds(p, holes_val, case_val):
    U = UEq()
    if isinstance(p, Opaque):
        return p._pyvc_ev
    if isinstance(p, U.Eq):
        return uev(p.lhs, holes_val) == uev(p.rhs, holes_val)
    if isinstance(p, U.Conj):
        return And([holds(q, holes_val, case_val) for q in p.preds])
    if isinstance(p, U.Disj):
        return Or([holds(q, holes_val, case_val) for q in p.preds])
    if isinstance(p, U.Cases):
        cv = case_val(p.case_var)
        return Or([And(cv == i, holds(q, holes_val, case_val)) for i, q in enumerate(p.cases)])
    raise AssertionError(f"holds: {type(p).__name__}")


def mentions_unknown(e, holes, knowns):
    U = UEq()
    if isinstance(e, Opaque):
        return False
    if isinstance(e, U.Var):
        return not any(e.name is x for x in list(holes) + list(knowns))
    if isinstance(e, U.Add):
        return mentions_unknown(e.lhs, holes, knowns) or mentions_unknown(e.rhs, holes, knowns)
    if isinstance(e, U.Scale):
        return mentions_unknown(e.e, holes, knowns)
    return False


def _unif_error():
    return LU().UnificationError


# ----------------------------------------------------------------------------
# (1) solve.lower_e

cle = contract("C05", F, "solve.lower_e")
cle.setup = install_model


def _outer(g):
    holes, knowns = frame(g)
    g.ghost["frame"] = (holes, knowns)
    return {"prob": UEq().problem(list(holes), list(knowns), [])}


cle.outer_inputs = _outer


def ih_lower_e(g, a):
    """induction hypothesis for a schematic sub-expression"""
    holes, knowns = g.ghost["frame"]
    if g.choose(["returns", "raises"], "ih.lower_e") == "raises":
        g.ghost["ih_raised"] = True
        raise ProgExc(_unif_error()("a variable of the sub-expression is neither known nor hole"))
    vec = [Tm(g.int(f"ihvec{i}")) for i in range(len(knowns) + 1)]
    g.assume(dot(vec, knowns) == uev(a.e, _holes_val(g)))
    return vec


def _holes_val(g):
    holes, knowns = g.ghost["frame"]
    return lambda h: dot(hole_vec(h, knowns), knowns)


cle.callee("solve.lower_e", result=ih_lower_e, assumed=False,
           note="induction hypothesis (structural recursion on the sub-expressions)")


@cle.inputs
def _(g):
    U = UEq()
    holes, knowns = g.ghost["frame"]
    kinds = ["Const", "Other", "Add", "Scale"] + [f"Known{i}" for i in range(len(knowns))] \
        + [f"Hole{i}" for i in range(len(holes))]
    k = g.choose(kinds, "e")
    if k == "Const":
        e = mk(U.Const, g.int("c"))
    elif k == "Other":
        e = U.Var(OTHER)
    elif k == "Add":
        e = mk(U.Add, opaque_uexpr(g, "l"), opaque_uexpr(g, "r"))
    elif k == "Scale":
        e = mk(U.Scale, g.int("coeff"), opaque_uexpr(g, "arg"))
    elif k.startswith("Known"):
        e = U.Var(knowns[int(k[5:])])
    else:
        e = U.Var(holes[int(k[4:])])
    return {"e": e}


@cle.ensures("the result is the coefficient vector of e: sum_k vec_k*known_k + vec_N == value of e, for all values of the knowns")
def _(a):
    holes, knowns = a.g.ghost["frame"]
    if len(a.result) != len(knowns) + 1:
        return False
    return dot(a.result, knowns) == uev(a.e, _holes_val(a.g))


cle.raises(_unif_error(),
           when=lambda a: mentions_unknown(a.e, *a.g.ghost["frame"]) or a.g.ghost.get("ih_raised", False),
           label="UnificationError only for a variable that is neither known nor hole")


# ----------------------------------------------------------------------------
# (5) UEq.expr.normalize : same value (bounded: expression trees of depth <= 2)

cnm = contract("C05", F, "normalize")
cnm.note("bounded shapes: trees of depth <= 2 over two variables and constants, symbolic coefficients")
VA, VB = Sym("a"), Sym("b")


def g_uexpr(g, depth, name="e"):
    U = UEq()
    kinds = ["Const", "VarA", "VarB"] + (["Add", "Scale"] if depth > 0 else [])
    k = g.choose(kinds, name)
    if k == "Const":
        return mk(U.Const, g.int(name + ".c"))
    if k == "VarA":
        return U.Var(VA)
    if k == "VarB":
        return U.Var(VB)
    if k == "Add":
        return mk(U.Add, g_uexpr(g, depth - 1, name + "l"), g_uexpr(g, depth - 1, name + "r"))
    return mk(U.Scale, g.int(name + ".k"), g_uexpr(g, depth - 1, name + "s"))


@cnm.inputs
def _(g):
    return {"orig_e": g_uexpr(g, 2)}


@cnm.ensures("the normal form has the value of the expression")
def _(a):
    return uev(a.result, None) == uev(a.orig_e, None)


# ----------------------------------------------------------------------------
# (2) solve.lower_p

clp = contract("C05", F, "solve.lower_p")
clp.setup = install_model
clp.outer_inputs = _outer


def _case_val(g):
    return lambda cv: _symtab()[repr(cv)].val


def ih_lower_p(g, a):
    pp = g.bool("ih.lowered")
    g.assume(Implies(pp, holds(a.p, _holes_val(g), _case_val(g))))
    return Tm(pp)


def c_normalize(g, a):
    """contract (5): the result is some expression with the same value"""
    d = _opaque_class(UEq().expr)("normalized", g.int("ev_normalized"), None, ())
    g.assume(d._pyvc_ev == uev(a.orig_e, _holes_val(g)))
    return d


clp.callee("solve.lower_p", result=ih_lower_p, assumed=False,
           note="induction hypothesis (structural recursion on the sub-predicates)")
clp.callee("solve.lower_e", result=ih_lower_e, assumed=False, note="contract (1)")
clp.callee("normalize", result=c_normalize, assumed=False,
           note="contract (5): value preserving (proved on trees of depth <= 2)")


@clp.inputs
def _(g):
    U = UEq()
    k = g.choose(["Eq", "Conj", "Disj", "Cases2", "Cases3", "Conj0", "Disj0"], "p")
    if k == "Eq":
        p = mk(U.Eq, opaque_uexpr(g, "lhs"), opaque_uexpr(g, "rhs"))
    elif k in ("Conj", "Disj"):
        p = mk(U.Conj if k == "Conj" else U.Disj, [opaque_upred(g, "p0"), opaque_upred(g, "p1")])
    elif k in ("Conj0", "Disj0"):
        p = (U.Conj if k == "Conj0" else U.Disj)([])
    else:
        n = int(k[5:])
        p = mk(U.Cases, CASEVAR, [opaque_upred(g, f"c{i}") for i in range(n)])
    return {"p": p}


@clp.ensures("sound lowering: the lowered formula implies the predicate for all values of the knowns "
             "(Eq: coefficient-wise zero of the difference implies the equation)")
def _(a):
    return Implies(a.result.val, holds(a.p, _holes_val(a.g), _case_val(a.g)))


@clp.ensures("Cases: the lowered formula pins the case variable to exactly one case in range")
def _(a):
    U = UEq()
    if not isinstance(a.p, U.Cases):
        return True
    cv = _case_val(a.g)(a.p.case_var)
    return Implies(a.result.val, And(0 <= cv, cv < len(a.p.cases)))


# ----------------------------------------------------------------------------
# (3) solve : the solution read back denotes the model; every predicate holds

csv = contract("C05", F, "solve", name=F + "::solve[read-back]")
csv.setup = install_model
csv.callee("solve.lower_p", result=ih_lower_p, assumed=False, note="contract (2)")


@csv.inputs
def _(g):
    holes, knowns = frame(g)
    g.ghost["frame"] = (holes, knowns)
    npreds = g.choose([1, 2], "preds")
    preds = [opaque_upred(g, f"p{i}") for i in range(npreds)]
    return {"prob": mk(UEq().problem, list(holes), list(knowns), preds)}


def _sol_val(a):
    return lambda h: uev(a.result[h], None)


@csv.ensures("the expression read back for a hole denotes the model's coefficient vector "
             "(coefficient 0 skipped, 1 bare, else Scale; plus the constant)")
def _(a):
    if a.result is None:
        return True
    holes, knowns = a.g.ghost["frame"]
    return And([uev(a.result[h], None) == dot(hole_vec(h, knowns), knowns) for h in holes])


@csv.ensures("a solution is returned only with a model of the lowered problem: every predicate holds")
def _(a):
    if a.result is None:
        return Not(a.g.ghost["is_sat"])
    return And(a.g.ghost["is_sat"],
               And([holds(p, _holes_val(a.g), _case_val(a.g)) for p in a.prob.preds]))


@csv.ensures("every hole gets a solution")
def _(a):
    if a.result is None:
        return True
    holes, _ = a.g.ghost["frame"]
    return all(any(k is h for k in a.result) for h in holes)


# ----------------------------------------------------------------------------
# (4) solve, whole: small problems through the real lower_p / lower_e / normalize

cwh = contract("C05", F, "solve", name=F + "::solve[small problems, no modular callee]")
cwh.setup = install_model
cwh.note("bounded shapes: nine problem families over <= 2 holes and <= 2 knowns, symbolic coefficients")

PROBLEMS = ["h=affine", "h+d=c*k", "2h=c*k", "two holes", "chain", "cases", "cases+pin", "disj", "unknown var",
            "cancelling unknown"]


def g_problem(g):
    U = UEq()
    h1, h2 = HOLES
    k1, k2 = KNOWNS
    V, C = U.Var, lambda nm: mk(U.Const, g.int(nm))
    Sc = lambda nm, e: mk(U.Scale, g.int(nm), e)
    Add = lambda x, y: mk(U.Add, x, y)
    Eq = lambda x, y: mk(U.Eq, x, y)
    kind = g.choose(PROBLEMS, "problem")
    holes, knowns = [h1], [k1, k2]
    if kind == "h=affine":
        preds = [Eq(V(h1), Add(Add(Sc("c1", V(k1)), Sc("c2", V(k2))), C("d")))]
    elif kind == "h+d=c*k":
        preds = [Eq(Add(V(h1), C("d")), Sc("c", V(k1)))]
        knowns = [k1]
    elif kind == "2h=c*k":
        preds = [Eq(mk(U.Scale, 2, V(h1)), Add(Sc("c", V(k1)), C("d")))]
        knowns = [k1]
    elif kind == "two holes":
        holes = [h1, h2]
        preds = [Eq(V(h1), Add(V(k1), C("d1"))), Eq(Add(V(h2), V(h1)), Sc("c", V(k2)))]
    elif kind == "chain":
        holes = [h1, h2]
        preds = [mk(U.Conj, [Eq(V(h2), Add(V(h1), C("d"))), Eq(V(h1), Sc("c", V(k1)))])]
        knowns = [k1]
    elif kind == "cases":
        preds = [mk(U.Cases, CASEVAR, [mk(U.Conj, [Eq(V(h1), C("c0"))]), mk(U.Conj, [Eq(V(h1), V(k1))]),
                                       mk(U.Conj, [Eq(V(h1), Add(V(k1), C("c2")))])])]
        knowns = [k1]
    elif kind == "cases+pin":
        preds = [mk(U.Cases, CASEVAR, [mk(U.Conj, [Eq(V(h1), C("c0"))]), mk(U.Conj, [Eq(V(h1), V(k1))])]),
                 Eq(V(h1), Sc("c", V(k1)))]
        knowns = [k1]
    elif kind == "disj":
        preds = [mk(U.Disj, [Eq(V(h1), C("c0")), Eq(V(h1), Add(V(k1), V(k2)))])]
    elif kind == "unknown var":
        preds = [Eq(V(h1), Add(V(OTHER), C("d")))]
    else:
        preds = [Eq(Add(V(h1), V(OTHER)), Add(V(OTHER), Sc("c", V(k1))))]
    return kind, mk(U.problem, holes, knowns, preds)


@cwh.inputs
def _(g):
    kind, prob = g_problem(g)
    return {"prob": prob, "__ghost__": {"kind": kind}}


def _whole_vals(a):
    res = a.result
    return (lambda h: uev(res[h], None)), (lambda cv: res[cv])


@cwh.ensures("the returned solution satisfies every equation for all values of the knowns; the reported case holds")
def _(a):
    if a.result is None:
        return True
    hv, cv = _whole_vals(a)
    return And([holds(p, hv, cv) for p in a.prob.preds])


@cwh.ensures("a reported case index is in range")
def _(a):
    U = UEq()
    if a.result is None:
        return True
    cs = [p for p in a.prob.preds if isinstance(p, U.Cases)]
    return And([And(0 <= a.result[p.case_var], a.result[p.case_var] < len(p.cases)) for p in cs])


@cwh.ensures("solutions mention knowns only")
def _(a):
    U = UEq()
    if a.result is None:
        return True

    def ok(e):
        if isinstance(e, U.Var):
            return any(e.name is k for k in a.prob.knowns)
        if isinstance(e, U.Add):
            return ok(e.lhs) and ok(e.rhs)
        if isinstance(e, U.Scale):
            return ok(e.e)
        return isinstance(e, U.Const)
    return all(ok(a.result[h]) for h in a.prob.holes)


@cwh.ensures("an equation whose unknown variable does not cancel is never solved")
def _(a):
    return a.result is None if a.ghost.kind == "unknown var" else True


# ----------------------------------------------------------------------------
# DoReplace : protocol
#
# The real function is interpreted on a real little procedure with a real block
# cursor (exo.core.internal_cursors runs natively: C06).  Alpha_Rename,
# Get_Live_Variables, Unification and Check_Aliasing are modular callees that
# record their arguments in a ghost event list; so is every check that could
# establish the callee's requirements at the call site (CheckBounds is the one
# that @proc definition runs; a repair may add it or a dedicated check).

from exo.core import internal_cursors as _ic

cdr = contract("C05", F, "DoReplace")
cdr.native_modules.add("exo.core.internal_cursors")

_N, _XW = Sym("n"), Sym("x")
_BY, _BZ = Sym("y"), Sym("z")
LBL_F9 = "the callee's assertions and size/stride requirements are checked at the new call site"


def events(g):
    return g.ghost.setdefault("events", [])


def _callee(nstmts):
    win = T.Window(T.Tensor([LoopIR.Read(_N, [], T.size, SRC)], False, T.f32),
                   T.Tensor([LoopIR.Read(_N, [], T.size, SRC)], True, T.f32), _XW, [])
    args = [LoopIR.fnarg(_N, T.size, None, SRC),
            LoopIR.fnarg(_XW, T.Tensor([LoopIR.Read(_N, [], T.size, SRC)], True, T.f32), DRAM, SRC)]
    pred = LoopIR.BinOp(">=", LoopIR.Read(_N, [], T.size, SRC), LoopIR.Const(8, T.int, SRC), T.bool, SRC)
    return LoopIR.proc("callee", args, [pred], [LoopIR.Pass(SRC) for _ in range(nstmts)], None, SRC)


def _asg(sym, v):
    return LoopIR.Assign(sym, T.f32, [], LoopIR.Const(v, T.f32, SRC), SRC)


class ProcTok:
    """stands for Alpha_Rename(subproc).result()"""
    def __init__(self, of):
        self.of = of


def _new_args():
    return [LoopIR.Const(4, T.int, SRC), LoopIR.Read(_BY, [], T.f32, SRC)]


def _alpha_init(g, obj, node):
    events(g).append(("alpha", obj, node))


def _alpha_result(g, obj):
    src = next(e[2] for e in events(g) if e[0] == "alpha" and e[1] is obj)
    tok = ProcTok(src)
    g.ghost["renamed"] = tok
    return tok


def _live_impl(g, stmt_cursor):
    events(g).append(("live", stmt_cursor))
    g.ghost["live"] = {"<live variables>": True}
    return g.ghost["live"]


def _unif_init(g, obj, subproc, stmt_block, live_vars):
    events(g).append(("unify", obj, subproc, list(stmt_block), live_vars))
    if g.choose(["unifies", "fails"], "Unification") == "fails":
        raise _unif_error()("abstract unification failure")
    obj.new_args = g.ghost["new_args"] = _new_args()


def _aliasing_impl(g, proc):
    events(g).append(("aliasing", proc))


def _callsite_impl(g, proc):
    events(g).append(("callsite_check", proc))


def _wrap_unif(f):
    def result(g, a):
        try:
            return f(g, a)
        except Exception as e:
            if isinstance(e, _unif_error()):
                raise ProgExc(e)
            raise
    return result


cdr.callee("Alpha_Rename.__init__", result=lambda g, a: _alpha_init(g, a.self, a.node), assumed=True,
           note="Alpha_Rename(proc).result() is an alpha-equivalent copy")
cdr.callee("Alpha_Rename.result", result=lambda g, a: _alpha_result(g, a.self), assumed=True, note="see above")
cdr.callee("Get_Live_Variables", result=lambda g, a: _live_impl(g, a.stmt_cursor), assumed=True,
           note="the variables in scope at the first statement of the block")
cdr.callee("Unification.__init__", assumed=True,
           result=_wrap_unif(lambda g, a: _unif_init(g, a.self, a.subproc, a.stmt_block, a.live_vars)),
           note="the structural matcher: returns arguments for which the callee body is the statement block (NOT covered)")
cdr.callee("Unification.result", result=lambda g, a: a.self.new_args, assumed=True, note="see above")
cdr.callee("Check_Aliasing", result=lambda g, a: _aliasing_impl(g, a.proc), assumed=True,
           note="Check_Aliasing(proc) rejects aliased call arguments")
cdr.callee("CheckBounds.__init__", result=lambda g, a: _callsite_impl(g, a.proc), assumed=True,
           note="CheckBounds(proc) verifies callee assertions, sizes and bounds at every call site")
cdr.callee("Check_CallSite", result=lambda g, a: _callsite_impl(g, a.proc), assumed=True,
           note="placeholder name for a dedicated call-site check")


@cdr.inputs
def _(g):
    g.ghost["events"] = []
    nst = g.choose([1, 2], "callee statements")
    stmts = [_asg(_BY, 0.0), _asg(_BY, 1.0), _asg(_BZ, 2.0), _asg(_BZ, 3.0)]
    args = [LoopIR.fnarg(_BY, T.f32, DRAM, SRC), LoopIR.fnarg(_BZ, T.f32, DRAM, SRC)]
    proc = LoopIR.proc("p", args, [], stmts, None, SRC)
    lo = g.choose([0, 1], "block start")
    ln = g.choose([1, 2, 3], "block length")
    blk = _ic.Cursor.create(proc).body()[lo:lo + ln]
    return {"subproc": _callee(nst), "block_cursor": blk,
            "__ghost__": {"proc": proc, "stmts": stmts, "lo": lo, "ln": ln, "nst": nst}}


cdr.raises(LU().SchedulingError, when=lambda a: a.ghost.ln < a.ghost.nst,
           label="SchedulingError only if the block has fewer statements than the callee body")
cdr.raises(_unif_error(), label="UnificationError only from the matcher")


def _same(xs, ys):
    return len(xs) == len(ys) and all(x is y for x, y in zip(xs, ys))


@cdr.ensures("the matcher is asked about the renamed callee, exactly the first n statements of the block and the live "
             "variables at the block")
def _(a):
    gh = a.ghost
    ev = [e for e in events(a.g) if e[0] == "unify"]
    al = [e for e in events(a.g) if e[0] == "alpha"]
    lv = [e for e in events(a.g) if e[0] == "live"]
    if len(ev) != 1 or len(al) != 1 or len(lv) != 1:
        return False
    return al[0][2] is a.subproc and ev[0][2] is a.g.ghost["renamed"] \
        and _same(ev[0][3], gh.stmts[gh.lo:gh.lo + gh.nst]) and ev[0][4] is a.g.ghost["live"] \
        and lv[0][1]._node is gh.stmts[gh.lo]


@cdr.ensures("exactly the matched statements are replaced by one call of the original sub-procedure with the solved "
             "arguments; every other statement is kept")
def _(a):
    gh = a.ghost
    body = list(a.result[0].body)
    want_len = len(gh.stmts) - gh.nst + 1
    if len(body) != want_len:
        return False
    call = body[gh.lo]
    return _same(body[:gh.lo], gh.stmts[:gh.lo]) and _same(body[gh.lo + 1:], gh.stmts[gh.lo + gh.nst:]) \
        and isinstance(call, LoopIR.Call) and call.f is a.subproc and _same(call.args, a.g.ghost["new_args"])


@cdr.ensures("Check_Aliasing is run on the resulting procedure")
def _(a):
    return any(e[0] == "aliasing" and e[1] is a.result[0] for e in events(a.g))


@cdr.ensures(LBL_F9)
def _(a):
    if a.g.concrete:
        return a.g.ghost["f9_witnesses_rejected"]
    return any(e[0] == "callsite_check" and e[1] is a.result[0] for e in events(a.g))


F9_WITNESS_SRC = '''
from __future__ import annotations
from exo import proc
from exo.stdlib.scheduling import replace

@proc
def needs_8(n: size, x: [f32][n]):
    assert n >= 8
    for i in seq(0, n):
        x[i] = 0.0

@proc
def needs_unit_stride(n: size, x: [f32][n]):
    assert stride(x, 0) == 1
    for i in seq(0, n):
        x[i] = 0.0

@proc
def four(y: f32[4]):
    for i in seq(0, 4):
        y[i] = 0.0

@proc
def column(y: f32[4, 4]):
    for i in seq(0, 4):
        y[i, 1] = 0.0

def cases():
    return [("callee asserts n >= 8, the block runs 4 iterations", lambda: replace(four, four.find_loop("i"), needs_8)),
            ("callee asserts stride(x, 0) == 1, the block walks a column of a 4x4 buffer",
             lambda: replace(column, column.find_loop("i"), needs_unit_stride))]
'''


def f9_witnesses():
    """[(name, rejected?)] for the real, unpatched replace"""
    import importlib.util, tempfile, shutil
    d = tempfile.mkdtemp(prefix="pyvc_c05_", dir="/var/tmp")
    try:
        p = os.path.join(d, "c05_witness_procs.py")
        with open(p, "w") as f:
            f.write(F9_WITNESS_SRC)
        spec = importlib.util.spec_from_file_location("c05_witness_procs", p)
        mod = importlib.util.module_from_spec(spec)
        spec.loader.exec_module(mod)
        out = []
        for name, op in mod.cases():
            try:
                q = op()
                out.append((name, False, str(q)))
            except Exception as e:
                out.append((name, True, f"{type(e).__name__}: {str(e)[:200]}"))
        return out
    finally:
        shutil.rmtree(d, ignore_errors=True)


_F9_CACHE = None


def _native_doreplace(g, fn, a):
    """Replay: (1) the semantic witnesses of F9 through the real replace;
    (2) the real DoReplace natively with recorders patched into the module."""
    m = LU()
    global _F9_CACHE
    if _F9_CACHE is None:
        _F9_CACHE = f9_witnesses()
    if os.environ.get("PYVC_REPLAY_VERBOSE"):
        for name, rejected, text in _F9_CACHE:
            print(f"  F9 witness: {name}: {'rejected' if rejected else 'ACCEPTED'}")
            if not rejected:
                print("    " + text.replace("\n", "\n    "))
    g.ghost["f9_witnesses_rejected"] = all(r for _, r, _ in _F9_CACHE)

    class FakeAlpha:
        def __init__(self, node):
            _alpha_init(g, self, node)

        def result(self):
            return _alpha_result(g, self)

    class FakeUnification:
        def __init__(self, subproc, stmt_block, live_vars):
            _unif_init(g, self, subproc, stmt_block, live_vars)

        def result(self):
            return self.new_args
    patch = dict(Alpha_Rename=FakeAlpha, Unification=FakeUnification,
                 Get_Live_Variables=lambda c: _live_impl(g, c), Check_Aliasing=lambda p: _aliasing_impl(g, p))
    old = {k: getattr(m, k) for k in patch}
    for k, v in patch.items():
        setattr(m, k, v)
    try:
        return fn(a.subproc, a.block_cursor)
    finally:
        for k, v in old.items():
            setattr(m, k, v)


cdr.native_entry = _native_doreplace
