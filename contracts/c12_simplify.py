"""C12 - simplify preserves the value of every index expression.

Contracts on `_DoNormalize` and `DoSimplify` in
src/exo/rewrite/LoopIR_scheduling.py.  Oracle: `ev` (floor division / modulo)
under any valuation admitted by the range environment.
"""
from __future__ import annotations
from collections import ChainMap
from pyvc.contract import contract
from pyvc import sym as S
from pyvc.sym import And, Or, Not, Implies, Ite
from contracts.ghost import ev, rho, opaque_expr, SRC
from contracts.c13_range import env_sound, bound_ok, g_env_for, _env_obj
from exo.core.LoopIR import LoopIR, T
from exo.core.prelude import Sym
from exo.rewrite import LoopIR_scheduling as LS
from exo.rewrite.range_analysis import IndexRangeEnvironment

F = "src/exo/rewrite/LoopIR_scheduling.py"

CSYM = Sym("temporary_constant_symbol")
X, Y, Z = Sym("x"), Sym("y"), Sym("z")


def val(k):
    return 1 if k is CSYM else rho(k)


def lin(m):
    """sum of coeff * value over a coefficient map"""
    tot = 0
    for k, c in m.items():
        tot = tot + c * val(k)
    return tot


def lin_list(l):
    tot = 0
    for c, v in l:
        tot = tot + c * rho(v)
    return tot


def mk_norm(g):
    o = object.__new__(LS._DoNormalize)
    o.C = CSYM
    env = {X: (g.optint("x_lo"), g.optint("x_hi"))}
    o.env = _env_obj(g, env)
    return o


def g_map(g, name, keys=(CSYM, X, Y)):
    """a non-empty coefficient map over a subset of `keys`"""
    subsets = []
    n = len(keys)
    for mask in range(1, 2 ** n):
        subsets.append([keys[i] for i in range(n) if mask >> i & 1])
    ks = g.choose(subsets, name + ".keys")
    return {k: g.int(f"{name}_{k.name()[:1]}") for k in ks}


# ----------------------------------------------------------------------------
# concat_map

ccm = contract("C12", F, "_DoNormalize.concat_map")

@ccm.inputs
def _(g):
    return {"self": mk_norm(g), "op": g.choose(["+", "-", "*"], "op"),
            "lhs": g_map(g, "l", (CSYM, X, Y)), "rhs": g_map(g, "r", (CSYM, X, Z))}

@ccm.ensures("coefficient map of the result denotes lhs (op) rhs")
def _(a):
    l, r = lin(a.lhs), lin(a.rhs)
    want = {"+": l + r, "-": l - r, "*": l * r}[a.op]
    return lin(a.result) == want

# a product is only defined when one side is a pure constant (quasi-affine)
ccm.raises(AssertionError, when=lambda a: a.op == "*",
           label="AssertionError only for a product")

@ccm.ensures_on_raise("a product is rejected only if neither side is a pure constant")
def _(a):
    const_l = len(a.lhs) == 1 and CSYM in a.lhs
    const_r = len(a.rhs) == 1 and CSYM in a.rhs
    return not (const_l or const_r)


# ----------------------------------------------------------------------------
# normalize_e (structural induction)

def g_norm_expr(g):
    k = g.choose(["Read", "Const", "USub", "BinOp+", "BinOp-", "BinOp*"], "expr")
    if k == "Read":
        return LoopIR.Read(X, [], T.index, SRC)
    if k == "Const":
        return LoopIR.Const(g.int("c"), T.int, SRC)
    if k == "USub":
        return LoopIR.USub(opaque_expr(g, "arg", not_ctors=()), T.index, SRC)
    return LoopIR.BinOp(k[5:], opaque_expr(g, "lhs", not_ctors=()),
                        opaque_expr(g, "rhs", not_ctors=()), T.index, SRC)


cne = contract("C12", F, "_DoNormalize.normalize_e")

@cne.inputs
def _(g):
    return {"self": mk_norm(g), "e": g_norm_expr(g)}

@cne.ensures("coefficient map denotes the expression")
def _(a):
    return lin(a.result) == ev(a.e)

@cne.ensures("coefficient map is never empty")
def _(a):
    return len(a.result) >= 1

cne.raises(AssertionError, when=lambda a: isinstance(a.e, LoopIR.BinOp) and a.e.op == "*",
           label="AssertionError only for a non-affine product")

def _ne_result(g, a):
    keys = (CSYM, X, Y) if getattr(a.e, "_pyvc_name", "") in ("lhs", "arg", "e") else (CSYM, X, Z)
    return g_map(g, "m_" + getattr(a.e, "_pyvc_name", "e"), keys)

NE_CALLEE = dict(result=_ne_result, ensures=lambda a: lin(a.result) == ev(a.e),
                 assumed=False, note="induction hypothesis / proved contract of normalize_e")
cne.callee("_DoNormalize.normalize_e", **NE_CALLEE)


# ----------------------------------------------------------------------------
# closures of index_start

def _outer_index_start(g):
    return {"self": mk_norm(g), "e": LoopIR.Const(0, T.int, SRC)}


def g_norm_list(g, name, maxlen=2, syms=(X, Y, Z)):
    n = g.choose(list(range(maxlen + 1)), name + ".len")
    out = []
    for i in range(n):
        c = g.int(f"{name}_c{i}")
        out.append((c, syms[i]))
    return out


# get_normalized_expr
cgn = contract("C12", F, "_DoNormalize.index_start.get_normalized_expr")
cgn.outer_inputs = _outer_index_start

@cgn.inputs
def _(g):
    return {"e": opaque_expr(g, "e", not_ctors=())}

@cgn.ensures("constant plus scaled variables denotes the expression")
def _(a):
    c, l = a.result
    return ev(c) + lin_list(l) == ev(a.e)

@cgn.ensures("no zero coefficient, no constant pseudo-variable, no duplicate variable")
def _(a):
    c, l = a.result
    vs = [v for _, v in l]
    return And(And([co != 0 for co, _ in l]), all(v is not CSYM for v in vs),
               len(set(map(id, vs))) == len(vs), isinstance(c, LoopIR.Const))

cgn.callee("_DoNormalize.normalize_e", **NE_CALLEE)


# generate_loopIR
cgl = contract("C12", F, "_DoNormalize.index_start.generate_loopIR")
cgl.outer_inputs = _outer_index_start

@cgl.inputs
def _(g):
    return {"e_context": opaque_expr(g, "ctx", not_ctors=()),
            "constant": LoopIR.Const(g.int("c"), T.int, SRC),
            "normalization_list": g_norm_list(g, "nl", 3)}

@cgl.ensures("generated expression denotes constant + sum of coeff * var")
def _(a):
    return ev(a.result) == ev(a.constant) + lin_list(a.normalization_list)


def _gl_result(g, a):
    if len(a.normalization_list) == 0:
        return a.constant
    return opaque_expr(g, "gen", not_ctors=(LoopIR.Const,))

GL_CALLEE = dict(result=_gl_result,
                 ensures=lambda a: ev(a.result) == ev(a.constant) + lin_list(a.normalization_list),
                 assumed=False, note="proved contract of generate_loopIR")

def _coef(g, name):
    """A coefficient, written (w.l.o.g., division theorem) as d*k + r with
    0 <= r < d when a divisor d is in play: this keeps the solver's job
    polynomial (it cannot derive the decomposition itself for symbolic d)."""
    d = g.ghost.get("d")
    if d is None or g.concrete:
        return g.int(name)
    k, r = g.int(name + "_k"), g.int(name + "_r")
    g.assume(And(0 <= r, r < d))
    c = d * k + r
    S.cut(S.floordiv(c, d) == k, "quotient of d*k+r")
    S.cut(S.mod(c, d) == r, "remainder of d*k+r")
    g.ghost.setdefault("coefs", {})[name] = (k, r)
    return c


def _gn_result(g, a):
    n = g.choose([0, 1, 2], "gn.len")
    syms = (X, Y)
    res = (LoopIR.Const(_coef(g, "gn_c"), T.int, SRC),
           [(_coef(g, f"gn_c{i}"), syms[i]) for i in range(n)])
    g.ghost["gn_syms"] = [syms[i] for i in range(n)]
    return res

GN_CALLEE = dict(result=_gn_result,
                 ensures=lambda a: And(ev(a.result[0]) + lin_list(a.result[1]) == ev(a.e),
                                       And([co != 0 for co, _ in a.result[1]])),
                 assumed=False, note="proved contract of get_normalized_expr")

def _ceb(a):
    # check_expr_bounds(e0, op0, e1, op1, e2) == True  ==>  e0 op0 e1 op1 e2 (C13)
    u, v, w = ev(a.expr0), ev(a.expr1), ev(a.expr2)
    r0 = {"<": u < v, "<=": u <= v, "==": u == v}[a.op0]
    r1 = {"<": v < w, "<=": v <= w, "==": v == w}[a.op1]
    return Implies(a.result, And(r0, r1))

CEBS_CALLEE = dict(result=lambda g, a: g.bool("bounds_ok"), ensures=_ceb, assumed=False,
                   requires=lambda a: env_sound(dict(a.self.env)),
                   note="contract of IndexRangeEnvironment.check_expr_bounds proved under C13")

def _ce(a):
    v, w = ev(a.expr0), ev(a.expr1)
    return Implies(a.result, {"<": v < w, "<=": v <= w, "==": v == w}[a.op])

CEB_CALLEE = dict(result=lambda g, a: g.bool("bound_ok"), ensures=_ce, assumed=False,
                  requires=lambda a: env_sound(dict(a.self.env)),
                  note="contract of IndexRangeEnvironment.check_expr_bound proved under C13")


def g_divmod_expr(g, op):
    d = g.pos("d")
    g.ghost["d"] = d
    return LoopIR.BinOp(op, opaque_expr(g, "num", not_ctors=()),
                        LoopIR.Const(d, T.int, SRC), T.index, SRC)


def _norm_env_sound(a):
    return env_sound(dict(a.g.ghost["outer"].self.env.env))


def _native_divmod(g, fn, a):
    """Replay entry for the closures of index_start: the schematic numerator
    is concretised as the linear expression c + c0*x + c1*y whose coefficients
    are the callee-abstraction's values in the counter-model (or random), so
    that the real get_normalized_expr reproduces them; the real index_start is
    then run on `num (op) d`."""
    vals, rng = g.ctx.values, g.ctx.rng
    def pick(n):
        return vals[n] if n in vals else rng.randint(-g.ctx.hi, g.ctx.hi)
    c, c0, c1 = pick("gn_c!1"), pick("gn_c0!1"), pick("gn_c1!1")
    def term(k, s):
        return LoopIR.BinOp("*", LoopIR.Const(k, T.int, SRC), LoopIR.Read(s, [], T.index, SRC), T.index, SRC)
    num = LoopIR.BinOp("+", LoopIR.BinOp("+", LoopIR.Const(c, T.int, SRC), term(c0, X), T.index, SRC),
                       term(c1, Y), T.index, SRC)
    e = LoopIR.BinOp(a.e.op, num, a.e.rhs, T.index, SRC)
    a.e = e
    me = g.ghost["outer"].self
    return fn(me, e)


# division_simplification
cds = contract("C12", F, "_DoNormalize.index_start.division_simplification")
cds.outer_inputs = _outer_index_start

@cds.inputs
def _(g):
    return {"e": g_divmod_expr(g, "/")}

cds.requires(_norm_env_sound)
cds.native_entry = _native_divmod

@cds.ensures("result has the value of the floor division")
def _(a):
    return ev(a.result) == ev(a.e)

cds.callee("_DoNormalize.index_start.get_normalized_expr", **GN_CALLEE)
cds.callee("_DoNormalize.index_start.generate_loopIR", **GL_CALLEE)
cds.callee("IndexRangeEnvironment.check_expr_bounds", **CEBS_CALLEE)


# modulo_simplification
cms = contract("C12", F, "_DoNormalize.index_start.modulo_simplification")
cms.outer_inputs = _outer_index_start

@cms.inputs
def _(g):
    return {"e": g_divmod_expr(g, "%")}

cms.requires(_norm_env_sound)
cms.native_entry = _native_divmod

@cms.ensures("result has the value of the floor modulo")
def _(a):
    d, num, res = a.e.rhs.val, ev(a.e.lhs), a.result
    # value before the final `% d` (if one is kept)
    inner = ev(res.lhs) if isinstance(res, LoopIR.BinOp) and res.op == "%" else ev(res)
    gh = a.g.ghost
    if "coefs" in gh and not a.g.concrete:
        # explicit witness for "what was dropped is a multiple of d": the terms
        # whose coefficient d*k+r has r == 0 contribute k*x each; the constant
        # d*kc+rc contributes kc or nothing (both are allowed by the property)
        w0 = 0
        for i, sy in enumerate(gh.get("gn_syms", [])):
            k, r = gh["coefs"][f"gn_c{i}"]
            w0 = w0 + Ite(r == 0, k * rho(sy), 0)
        kc, rc = gh["coefs"]["gn_c"]
        diff = num - inner
        S.cut(Or(diff == d * w0, diff == d * (w0 + kc)),
              "what was dropped is a multiple of the modulus")
        S.cut(Or(And(diff == d * w0, S.floordiv(num, d) == S.floordiv(inner, d) + w0),
                 And(diff == d * (w0 + kc), S.floordiv(num, d) == S.floordiv(inner, d) + w0 + kc)),
              "quotients differ by that multiple")
    return ev(res) == S.mod(num, d)

cms.callee("_DoNormalize.index_start.get_normalized_expr", **GN_CALLEE)
cms.callee("_DoNormalize.index_start.generate_loopIR", **GL_CALLEE)
cms.callee("IndexRangeEnvironment.check_expr_bounds", **CEBS_CALLEE)
cms.callee("IndexRangeEnvironment.check_expr_bound", **CEB_CALLEE)
