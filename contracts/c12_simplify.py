"""C12 - simplify preserves the value of every index expression.

Contracts on `_DoNormalize` and `DoSimplify` in
src/exo/rewrite/LoopIR_scheduling.py.  Oracle: `ev` (floor division / modulo)
under any valuation admitted by the range environment.
"""
from __future__ import annotations
from collections import ChainMap
from pyvc.contract import contract
from pyvc import sym as S
from pyvc.sym import And, Or, Not, Implies, Ite
from contracts.ghost import ev, rho, opaque_expr, SRC
from contracts.c13_range import env_sound, bound_ok, g_env_for, _env_obj
from exo.core.LoopIR import LoopIR, T
from exo.core.prelude import Sym
from exo.rewrite import LoopIR_scheduling as LS
from exo.rewrite.range_analysis import IndexRangeEnvironment

F = "src/exo/rewrite/LoopIR_scheduling.py"

CSYM = Sym("temporary_constant_symbol")
X, Y, Z = Sym("x"), Sym("y"), Sym("z")


def val(k):
    return 1 if k is CSYM else rho(k)


def lin(m):
    """sum of coeff * value over a coefficient map"""
    tot = 0
    for k, c in m.items():
        tot = tot + c * val(k)
    return tot


def lin_list(l):
    tot = 0
    for c, v in l:
        tot = tot + c * rho(v)
    return tot


def mk_norm(g):
    o = object.__new__(LS._DoNormalize)
    o.C = CSYM
    env = {X: (g.optint("x_lo"), g.optint("x_hi"))}
    o.env = _env_obj(g, env)
    return o


def g_map(g, name, keys=(CSYM, X, Y)):
    """a non-empty coefficient map over a subset of `keys`"""
    subsets = []
    n = len(keys)
    for mask in range(1, 2 ** n):
        subsets.append([keys[i] for i in range(n) if mask >> i & 1])
    ks = g.choose(subsets, name + ".keys")
    return {k: g.int(f"{name}_{k.name()[:1]}") for k in ks}


# ----------------------------------------------------------------------------
# concat_map

ccm = contract("C12", F, "_DoNormalize.concat_map")

@ccm.inputs
def _(g):
    return {"self": mk_norm(g), "op": g.choose(["+", "-", "*"], "op"),
            "lhs": g_map(g, "l", (CSYM, X, Y)), "rhs": g_map(g, "r", (CSYM, X, Z))}

@ccm.ensures("coefficient map of the result denotes lhs (op) rhs")
def _(a):
    l, r = lin(a.lhs), lin(a.rhs)
    want = {"+": l + r, "-": l - r, "*": l * r}[a.op]
    return lin(a.result) == want

# a product is only defined when one side is a pure constant (quasi-affine)
ccm.raises(AssertionError, when=lambda a: a.op == "*",
           label="AssertionError only for a product")

@ccm.ensures_on_raise("a product is rejected only if neither side is a pure constant")
def _(a):
    const_l = len(a.lhs) == 1 and CSYM in a.lhs
    const_r = len(a.rhs) == 1 and CSYM in a.rhs
    return not (const_l or const_r)


# ----------------------------------------------------------------------------
# normalize_e (structural induction)

def g_norm_expr(g):
    k = g.choose(["Read", "Const", "USub", "BinOp+", "BinOp-", "BinOp*"], "expr")
    if k == "Read":
        return LoopIR.Read(X, [], T.index, SRC)
    if k == "Const":
        return LoopIR.Const(g.int("c"), T.int, SRC)
    if k == "USub":
        return LoopIR.USub(opaque_expr(g, "arg", not_ctors=()), T.index, SRC)
    return LoopIR.BinOp(k[5:], opaque_expr(g, "lhs", not_ctors=()),
                        opaque_expr(g, "rhs", not_ctors=()), T.index, SRC)


cne = contract("C12", F, "_DoNormalize.normalize_e")

@cne.inputs
def _(g):
    return {"self": mk_norm(g), "e": g_norm_expr(g)}

@cne.ensures("coefficient map denotes the expression")
def _(a):
    return lin(a.result) == ev(a.e)

@cne.ensures("a literal maps to the constant pseudo-variable only")
def _(a):
    if isinstance(a.e, LoopIR.Const):
        return And(list(a.result.keys()) == [CSYM], a.result[CSYM] == a.e.val)
    return True

@cne.ensures("coefficient map is never empty")
def _(a):
    return len(a.result) >= 1

cne.raises(AssertionError, when=lambda a: isinstance(a.e, LoopIR.BinOp) and a.e.op == "*",
           label="AssertionError only for a non-affine product")

def _ne_result(g, a):
    if isinstance(a.e, LoopIR.Const):
        return {CSYM: a.e.val}
    keys = (CSYM, X, Y) if getattr(a.e, "_pyvc_name", "") in ("lhs", "arg", "e") else (CSYM, X, Z)
    return g_map(g, "m_" + getattr(a.e, "_pyvc_name", "e"), keys)

NE_CALLEE = dict(result=_ne_result, ensures=lambda a: lin(a.result) == ev(a.e),
                 assumed=False, note="induction hypothesis / proved contract of normalize_e")
cne.callee("_DoNormalize.normalize_e", **NE_CALLEE)


# ----------------------------------------------------------------------------
# closures of index_start

def _outer_index_start(g):
    return {"self": mk_norm(g), "e": LoopIR.Const(0, T.int, SRC)}


def g_norm_list(g, name, maxlen=2, syms=(X, Y, Z)):
    n = g.choose(list(range(maxlen + 1)), name + ".len")
    out = []
    for i in range(n):
        c = g.int(f"{name}_c{i}")
        out.append((c, syms[i]))
    return out


# get_normalized_expr
cgn = contract("C12", F, "_DoNormalize.index_start.get_normalized_expr")
cgn.outer_inputs = _outer_index_start

@cgn.inputs
def _(g):
    if g.choose(["any", "literal"], "e") == "literal":
        return {"e": LoopIR.Const(g.int("lit"), T.int, SRC)}
    return {"e": opaque_expr(g, "e", not_ctors=())}

@cgn.ensures("a literal normalises to itself with no variable terms")
def _(a):
    if isinstance(a.e, LoopIR.Const):
        c, l = a.result
        return And(len(l) == 0, c.val == a.e.val)
    return True

@cgn.ensures("constant plus scaled variables denotes the expression")
def _(a):
    c, l = a.result
    return ev(c) + lin_list(l) == ev(a.e)

@cgn.ensures("no zero coefficient, no constant pseudo-variable, no duplicate variable")
def _(a):
    c, l = a.result
    vs = [v for _, v in l]
    return And(And([co != 0 for co, _ in l]), all(v is not CSYM for v in vs),
               len(set(map(id, vs))) == len(vs), isinstance(c, LoopIR.Const))

cgn.callee("_DoNormalize.normalize_e", **NE_CALLEE)


# generate_loopIR
cgl = contract("C12", F, "_DoNormalize.index_start.generate_loopIR")
cgl.outer_inputs = _outer_index_start

@cgl.inputs
def _(g):
    return {"e_context": opaque_expr(g, "ctx", not_ctors=()),
            "constant": LoopIR.Const(g.int("c"), T.int, SRC),
            "normalization_list": g_norm_list(g, "nl", 3)}

@cgl.ensures("generated expression denotes constant + sum of coeff * var")
def _(a):
    return ev(a.result) == ev(a.constant) + lin_list(a.normalization_list)


def _gl_result(g, a):
    if len(a.normalization_list) == 0:
        return a.constant
    return opaque_expr(g, "gen", not_ctors=(LoopIR.Const,))

GL_CALLEE = dict(result=lambda g, a: _gl_result2(g, a),
                 ensures=lambda a: ev(a.result) == ev(a.constant) + lin_list(a.normalization_list),
                 assumed=False, note="proved contract of generate_loopIR")

def _coef(g, name):
    """A coefficient, written (w.l.o.g., division theorem) as d*k + r with
    0 <= r < d when a divisor d is in play: this keeps the solver's job
    polynomial (it cannot derive the decomposition itself for symbolic d)."""
    d = g.ghost.get("d")
    if d is None or g.concrete:
        return g.int(name)
    k, r = g.int(name + "_k"), g.int(name + "_r")
    g.assume(And(0 <= r, r < d))
    c = d * k + r
    S.cut(S.floordiv(c, d) == k, "quotient of d*k+r")
    S.cut(S.mod(c, d) == r, "remainder of d*k+r")
    g.ghost.setdefault("coefs", {})[name] = (k, r)
    return c


def _gn_result(g, a):
    if isinstance(a.e, LoopIR.Const):
        return (LoopIR.Const(a.e.val, T.int, SRC), [])
    n = g.choose([0, 1, 2], "gn.len")
    syms = (X, Y)
    res = (LoopIR.Const(_coef(g, "gn_c"), T.int, SRC),
           [(_coef(g, f"gn_c{i}"), syms[i]) for i in range(n)])
    g.ghost["gn_syms"] = [syms[i] for i in range(n)]
    return res

GN_CALLEE = dict(result=_gn_result,
                 ensures=lambda a: And(ev(a.result[0]) + lin_list(a.result[1]) == ev(a.e),
                                       And([co != 0 for co, _ in a.result[1]])),
                 assumed=False, note="proved contract of get_normalized_expr")

def _ceb(a):
    # check_expr_bounds(e0, op0, e1, op1, e2) == True  ==>  e0 op0 e1 op1 e2 (C13)
    u, v, w = ev(a.expr0), ev(a.expr1), ev(a.expr2)
    r0 = {"<": u < v, "<=": u <= v, "==": u == v}[a.op0]
    r1 = {"<": v < w, "<=": v <= w, "==": v == w}[a.op1]
    return Implies(a.result, And(r0, r1))

CEBS_CALLEE = dict(result=lambda g, a: g.bool("bounds_ok"), ensures=_ceb, assumed=False,
                   requires=lambda a: env_sound(dict(a.self.env)),
                   note="contract of IndexRangeEnvironment.check_expr_bounds proved under C13")

def _ce(a):
    v, w = ev(a.expr0), ev(a.expr1)
    return Implies(a.result, {"<": v < w, "<=": v <= w, "==": v == w}[a.op])

CEB_CALLEE = dict(result=lambda g, a: g.bool("bound_ok"), ensures=_ce, assumed=False,
                  requires=lambda a: env_sound(dict(a.self.env)),
                  note="contract of IndexRangeEnvironment.check_expr_bound proved under C13")


def g_divmod_expr(g, op):
    d = g.pos("d")
    g.ghost["d"] = d
    return LoopIR.BinOp(op, opaque_expr(g, "num", not_ctors=()),
                        LoopIR.Const(d, T.int, SRC), T.index, SRC)


def _norm_env_sound(a):
    return env_sound(dict(a.g.ghost["outer"].self.env.env))


def _native_divmod(g, fn, a):
    """Replay entry for the closures of index_start: the schematic numerator
    is concretised as the linear expression c + c0*x + c1*y whose coefficients
    are the callee-abstraction's values in the counter-model (or random), so
    that the real get_normalized_expr reproduces them; the real index_start is
    then run on `num (op) d`."""
    vals, rng = g.ctx.values, g.ctx.rng
    def pick(n):
        return vals[n] if n in vals else rng.randint(-g.ctx.hi, g.ctx.hi)
    c, c0, c1 = pick("gn_c!1"), pick("gn_c0!1"), pick("gn_c1!1")
    def term(k, s):
        return LoopIR.BinOp("*", LoopIR.Const(k, T.int, SRC), LoopIR.Read(s, [], T.index, SRC), T.index, SRC)
    num = LoopIR.BinOp("+", LoopIR.BinOp("+", LoopIR.Const(c, T.int, SRC), term(c0, X), T.index, SRC),
                       term(c1, Y), T.index, SRC)
    e = LoopIR.BinOp(a.e.op, num, a.e.rhs, T.index, SRC)
    a.e = e
    me = g.ghost["outer"].self
    return fn(me, e)


# division_simplification
cds = contract("C12", F, "_DoNormalize.index_start.division_simplification")
cds.outer_inputs = _outer_index_start

@cds.inputs
def _(g):
    return {"e": g_divmod_expr(g, "/")}

cds.requires(_norm_env_sound)
cds.native_entry = _native_divmod

@cds.ensures("result has the value of the floor division")
def _(a):
    return ev(a.result) == ev(a.e)

cds.callee("_DoNormalize.index_start.get_normalized_expr", **GN_CALLEE)
cds.callee("_DoNormalize.index_start.generate_loopIR", **GL_CALLEE)
cds.callee("IndexRangeEnvironment.check_expr_bounds", **CEBS_CALLEE)


# modulo_simplification
cms = contract("C12", F, "_DoNormalize.index_start.modulo_simplification")
cms.outer_inputs = _outer_index_start

@cms.inputs
def _(g):
    return {"e": g_divmod_expr(g, "%")}

cms.requires(_norm_env_sound)
cms.native_entry = _native_divmod

@cms.ensures("result has the value of the floor modulo")
def _(a):
    d, num, res = a.e.rhs.val, ev(a.e.lhs), a.result
    # value before the final `% d` (if one is kept)
    inner = ev(res.lhs) if isinstance(res, LoopIR.BinOp) and res.op == "%" else ev(res)
    gh = a.g.ghost
    if "coefs" in gh and not a.g.concrete:
        # explicit witness for "what was dropped is a multiple of d": the terms
        # whose coefficient d*k+r has r == 0 contribute k*x each; the constant
        # d*kc+rc contributes kc or nothing (both are allowed by the property)
        w0 = 0
        for i, sy in enumerate(gh.get("gn_syms", [])):
            k, r = gh["coefs"][f"gn_c{i}"]
            w0 = w0 + Ite(r == 0, k * rho(sy), 0)
        kc, rc = gh["coefs"]["gn_c"]
        diff = num - inner
        S.cut(Or(diff == d * w0, diff == d * (w0 + kc)),
              "what was dropped is a multiple of the modulus")
        S.cut(Or(And(diff == d * w0, S.floordiv(num, d) == S.floordiv(inner, d) + w0),
                 And(diff == d * (w0 + kc), S.floordiv(num, d) == S.floordiv(inner, d) + w0 + kc)),
              "quotients differ by that multiple")
    return ev(res) == S.mod(num, d)

cms.callee("_DoNormalize.index_start.get_normalized_expr", **GN_CALLEE)
cms.callee("_DoNormalize.index_start.generate_loopIR", **GL_CALLEE)
cms.callee("IndexRangeEnvironment.check_expr_bounds", **CEBS_CALLEE)
cms.callee("IndexRangeEnvironment.check_expr_bound", **CEB_CALLEE)


# ----------------------------------------------------------------------------
# division_simplification: extra clause used by its callers

@cds.ensures("a result that is still a division keeps the same literal divisor")
def _(a):
    r = a.result
    if isinstance(r, LoopIR.BinOp) and r.op == "/":
        return And(isinstance(r.rhs, LoopIR.Const), r.rhs.val == a.e.rhs.val)
    return True


def _gl_result2(g, a):
    """generate_loopIR returns its `constant` for an empty list, otherwise a
    chain of + / - nodes (never a division)."""
    if len(a.normalization_list) == 0:
        return a.constant
    op = g.choose(["+", "-"], "gen.op")
    return LoopIR.BinOp(op, opaque_expr(g, "gen_l", not_ctors=()),
                        opaque_expr(g, "gen_r", not_ctors=()), T.index, SRC)

@cgl.ensures("result is the given constant or a +/- node (never a division)")
def _(a):
    r = a.result
    if len(a.normalization_list) == 0:
        return r is a.constant
    return isinstance(r, LoopIR.BinOp) and r.op in ("+", "-")


def _ds_result(g, a):
    k = g.choose(["still_division", "plus_minus", "const"], "ds")
    if k == "still_division":
        return LoopIR.BinOp("/", opaque_expr(g, "ds_num", not_ctors=()), a.e.rhs, T.index, SRC)
    if k == "const":
        return LoopIR.Const(g.int("ds_c"), T.int, SRC)
    return LoopIR.BinOp(g.choose(["+", "-"], "ds.op"), opaque_expr(g, "ds_l", not_ctors=()),
                        opaque_expr(g, "ds_r", not_ctors=()), T.index, SRC)

DS_CALLEE = dict(result=_ds_result, ensures=lambda a: ev(a.result) == ev(a.e),
                 requires=lambda a: And(isinstance(a.e.rhs, LoopIR.Const), a.e.rhs.val > 0),
                 assumed=False, note="proved contract of division_simplification")

@cds.ensures("result is a division by the same literal, a literal, or a +/- node")
def _(a):
    r = a.result
    return (isinstance(r, LoopIR.Const)
            or (isinstance(r, LoopIR.BinOp) and r.op in ("+", "-", "/")))


# division_simplification_and_try_spliting_denominator
csd = contract("C12", F, "_DoNormalize.index_start.division_simplification_and_try_spliting_denominator")
csd.outer_inputs = _outer_index_start

@csd.inputs
def _(g):
    return {"e": g_divmod_expr(g, "/")}

@csd.ensures("result has the value of the floor division")
def _(a):
    return ev(a.result) == ev(a.e)

csd.callee("_DoNormalize.index_start.division_simplification", **DS_CALLEE)
# while divisor * divisor <= d: every exit from inside the loop is checked
# against the postcondition; the invariant only has to keep `divisor` positive
csd.loop("_DoNormalize.index_start.division_simplification_and_try_spliting_denominator", 0,
         invariant=lambda env: env.divisor >= 2,
         havoc={"divisor": lambda g: g.int("divisor")})


# division_denominator_simplification: (n / c1) / c2 == n / (c1*c2)
cdd = contract("C12", F, "_DoNormalize.index_start.division_denominator_simplification")
cdd.outer_inputs = _outer_index_start

@cdd.inputs
def _(g):
    depth = g.choose([1, 2, 3, 4], "nest")
    e = opaque_expr(g, "n", not_ctors=(LoopIR.BinOp,))
    for i in range(depth):
        e = LoopIR.BinOp("/", e, LoopIR.Const(g.pos(f"c{i}"), T.int, SRC), T.index, SRC)
    return {"e": e}

@cdd.ensures("collapsed denominators give the same floor quotient")
def _(a):
    # explicit witness chain: n/c0/c1 == n/(c0*c1) step by step
    return ev(a.result) == ev(a.e)

cdd.note("nest depth of literal denominators enumerated 1..4 (values symbolic)")


# index_start: dispatch + structural induction
cis = contract("C12", F, "_DoNormalize.index_start")

def g_is_expr(g):
    k = g.choose(["Read", "Const", "USub", "BinOp+", "BinOp-", "BinOp*", "BinOp/", "BinOp%"], "expr")
    if k == "Read":
        return LoopIR.Read(X, [], T.index, SRC)
    if k == "Const":
        return LoopIR.Const(g.int("c"), T.int, SRC)
    if k == "USub":
        return LoopIR.USub(opaque_expr(g, "arg", not_ctors=()), T.index, SRC)
    op = k[5:]
    if op in ("/", "%"):
        return g_divmod_expr(g, op)
    return LoopIR.BinOp(op, opaque_expr(g, "lhs", not_ctors=()),
                        opaque_expr(g, "rhs", not_ctors=()), T.index, SRC)

@cis.inputs
def _(g):
    return {"self": mk_norm(g), "e": g_is_expr(g)}

@cis.requires
def _(a):
    return env_sound(dict(a.self.env.env))

@cis.ensures("normalised expression has the same value")
def _(a):
    return ev(a.result) == ev(a.e)

@cis.ensures("a literal stays the same literal")
def _(a):
    if isinstance(a.e, LoopIR.Const):
        if not isinstance(a.result, LoopIR.Const):
            return False
        return a.result.val == a.e.val
    return True

def _is_result(g, a):
    if isinstance(a.e, LoopIR.Const):
        return LoopIR.Const(a.e.val, T.int, SRC)
    return opaque_expr(g, "is_" + getattr(a.e, "_pyvc_name", "e"), not_ctors=(LoopIR.Const,))

IS_CALLEE = dict(result=_is_result, ensures=lambda a: ev(a.result) == ev(a.e), assumed=False,
                 note="induction hypothesis of index_start")
cis.callee("_DoNormalize.index_start", **IS_CALLEE)
cis.callee("_DoNormalize.has_div_mod_config", result=lambda g, a: g.bool("has_div_mod"),
           assumed=False, note="pure predicate; both answers must be sound for the caller")
cis.callee("_DoNormalize.index_start.get_normalized_expr", **GN_CALLEE)
cis.callee("_DoNormalize.index_start.generate_loopIR", **GL_CALLEE)
_EV_SAME = dict(result=lambda g, a: opaque_expr(g, "simp", not_ctors=()),
                ensures=lambda a: ev(a.result) == ev(a.e), assumed=False,
                requires=lambda a: And(isinstance(a.e.rhs, LoopIR.Const), a.e.rhs.val > 0),
                note="proved above")
cis.callee("_DoNormalize.index_start.division_simplification_and_try_spliting_denominator", **_EV_SAME)
cis.callee("_DoNormalize.index_start.division_denominator_simplification", **_EV_SAME)
cis.callee("_DoNormalize.index_start.modulo_simplification", **_EV_SAME)
cis.raises(AssertionError, when=lambda a: False, label="no assertion failure on well-typed input")


# ----------------------------------------------------------------------------
# DoSimplify

def mk_simp(g):
    o = object.__new__(LS.DoSimplify)
    o.facts = ChainMap()
    return o

ARITH = ["+", "-", "*", "/", "%"]
CMP = ["<", ">", "<=", ">=", "=="]
LOGIC = ["and", "or"]

ccf = contract("C12", F, "DoSimplify.cfold")

@ccf.inputs
def _(g):
    op = g.choose(ARITH + CMP + LOGIC, "op")
    if op in LOGIC:
        l, r = LoopIR.Const(g.bool("l"), T.bool, SRC), LoopIR.Const(g.bool("r"), T.bool, SRC)
    else:
        l, r = LoopIR.Const(g.int("l"), T.int, SRC), LoopIR.Const(g.int("r"), T.int, SRC)
    return {"self": mk_simp(g), "op": op, "lhs": l, "rhs": r}

@ccf.requires
def _(a):
    # divisor / modulus is a positive literal (front-end rule, see C03)
    return a.rhs.val > 0 if a.op in ("/", "%") else True

@ccf.ensures("folded constant is the value of the operation")
def _(a):
    from contracts.ghost import ev_binop
    want = ev_binop(a.op, a.lhs.val, a.rhs.val)
    if a.op in LOGIC or a.op in CMP:
        return S.Iff(a.result, want)
    return a.result == want


# map_binop: algebraic rules
cmb = contract("C12", F, "DoSimplify.map_binop")

def g_operand(g, name, other=None):
    """what map_e may return for an operand: nothing (unchanged), a literal,
    an arbitrary non-literal, a sum (for the (x+y)-x rule), or `other`'s own
    sub-term objects"""
    k = g.choose(["none", "const", "opaque", "sum"], name)
    if k == "none":
        return None
    if k == "const":
        return LoopIR.Const(g.int(name + "_c"), T.int, SRC)
    if k == "opaque":
        return opaque_expr(g, name, not_ctors=(LoopIR.Const, LoopIR.BinOp))
    return LoopIR.BinOp("+", opaque_expr(g, name + "_a", not_ctors=(LoopIR.Const, LoopIR.BinOp)),
                        opaque_expr(g, name + "_b", not_ctors=(LoopIR.Const, LoopIR.BinOp)), T.index, SRC)

@cmb.inputs
def _(g):
    op = g.choose(ARITH, "op")
    lhs0 = opaque_expr(g, "l0", not_ctors=(LoopIR.Const, LoopIR.BinOp))
    if op in ("/", "%"):
        rhs0 = LoopIR.Const(g.pos("d"), T.int, SRC)
    else:
        rhs0 = opaque_expr(g, "r0", not_ctors=(LoopIR.Const, LoopIR.BinOp))
    e = LoopIR.BinOp(op, lhs0, rhs0, T.index, SRC)
    new_l = g_operand(g, "nl")
    if op in ("/", "%"):
        new_r = None
    else:
        kinds = ["fresh"]
        if isinstance(new_l, LoopIR.BinOp):
            kinds += ["same_as_l.lhs", "same_as_l.rhs"]
        kk = g.choose(kinds, "nr.kind")
        new_r = g_operand(g, "nr") if kk == "fresh" else (new_l.lhs if kk == "same_as_l.lhs" else new_l.rhs)
    g.ghost["map_e"] = {id(lhs0): new_l, id(rhs0): new_r}
    return {"self": mk_simp(g), "e": e}

@cmb.requires
def _(a):
    m = a.g.ghost["map_e"]
    cs = []
    for sub in (a.e.lhs, a.e.rhs):
        r = m[id(sub)]
        if r is not None:
            cs.append(ev(r) == ev(sub))
    return And(cs)

@cmb.ensures("simplified binary operation has the same value")
def _(a):
    return ev(a.result) == ev(a.e)

cmb.callee("DoSimplify.map_e", result=lambda g, a: g.ghost["map_e"][id(a.e)],
           assumed=False, note="induction hypothesis: map_e returns None or an expression of equal value "
                               "(the equal-value fact is the precondition above)")
cmb.callee("DoSimplify.is_quotient_remainder",
           result=lambda g, a: None if g.choose(["no", "yes"], "qr") == "no" else opaque_expr(g, "qr_n", not_ctors=()),
           ensures=lambda a: True if a.result is None else ev(a.result) == ev(a.e),
           assumed=False, note="contract of is_quotient_remainder (below)")


# is_quotient_remainder: N % K + K * (N / K)  ->  N
cqr = contract("C12", F, "DoSimplify.is_quotient_remainder")

@cqr.inputs
def _(g):
    N = opaque_expr(g, "N", not_ctors=(LoopIR.Const, LoopIR.BinOp))
    same = g.choose(["same_num", "other_num"], "num")
    N2 = N if same == "same_num" else opaque_expr(g, "M", not_ctors=(LoopIR.Const, LoopIR.BinOp))
    K = g.choose([2, 4], "K")
    K2 = K if g.choose(["same_k", "other_k"], "k") == "same_k" else K + 1
    K3 = K if g.choose(["same_k3", "other_k3"], "k3") == "same_k3" else K + 1
    rem = LoopIR.BinOp("%", N, LoopIR.Const(K, T.int, SRC), T.index, SRC)
    div = LoopIR.BinOp("/", N2, LoopIR.Const(K2, T.int, SRC), T.index, SRC)
    kc = LoopIR.Const(K3, T.int, SRC)
    quot = LoopIR.BinOp("*", kc, div, T.index, SRC) if g.choose(["k*d", "d*k"], "qo") == "k*d" \
        else LoopIR.BinOp("*", div, kc, T.index, SRC)
    form = g.choose(["rem+quot", "quot+rem", "minus"], "form")
    if form == "rem+quot":
        e = LoopIR.BinOp("+", rem, quot, T.index, SRC)
    elif form == "quot+rem":
        e = LoopIR.BinOp("+", quot, rem, T.index, SRC)
    else:
        e = LoopIR.BinOp("-", rem, quot, T.index, SRC)
    return {"e": e}

@cqr.ensures("returns N only if the expression equals N")
def _(a):
    return True if a.result is None else ev(a.result) == ev(a.e)

cqr.note("sub-expressions are compared through str(); schematic leaves print alike only when "
         "identical, so the case 'different expressions with identical printed text' (two distinct "
         "symbols of the same name in one expression) is NOT covered: assumption, see DESIGN F2 family")
ASSUMPTIONS = ["DoSimplify.is_quotient_remainder compares sub-expressions by printed text: two different "
               "expressions with identical text (distinct symbols of equal name) are assumed not to occur "
               "inside one index expression"]


# ----------------------------------------------------------------------------
# branch facts: add_fact / is_known_constant as a pair
#
# Property: a replacement is justified by an enclosing guard only if the
# replaced expression denotes the guarded expression's value *at that program
# point*.  Function-level consequences checked here:
#  (1) after add_fact(E == c) [we are inside the guard: ev(E) == c], a lookup of
#      any expression Q yields R only if ev(R) == ev(Q) - in particular not for
#      a Q that mentions a *different symbol with the same name*;
#  (2) a fact about a configuration field must not be served at all: the field
#      may be written between the guard and the use (nothing in DoSimplify
#      invalidates facts on a WriteConfig).

_X1, _X2, _Y1 = Sym("x"), Sym("x"), Sym("y")

def _mk_cfg():
    from exo.core.configs import Config
    from exo.core.LoopIR import UAST
    return Config("CfgVerif", [("a", UAST.Index())], False)

_CFG = None

def _cfg():
    global _CFG
    if _CFG is None:
        _CFG = _mk_cfg()
    return _CFG

def _fact_expr(kind, s):
    rd = LoopIR.Read(s, [], T.index, SRC)
    if kind == "read":
        return rd
    if kind == "plus1":
        return LoopIR.BinOp("+", rd, LoopIR.Const(1, T.int, SRC), T.index, SRC)
    if kind == "div4":
        return LoopIR.BinOp("/", rd, LoopIR.Const(4, T.int, SRC), T.index, SRC)
    if kind == "mod4":
        return LoopIR.BinOp("%", rd, LoopIR.Const(4, T.int, SRC), T.index, SRC)
    if kind == "config":
        return LoopIR.ReadConfig(_cfg(), "a", T.index, SRC)
    raise AssertionError(kind)

cfa = contract("C12", F, "DoSimplify.add_fact")

@cfa.inputs
def _(g):
    kind = g.choose(["read", "plus1", "div4", "config"], "fact.kind")
    side = g.choose(["expr==c", "c==expr"], "side")
    E = _fact_expr(kind, _X1)
    c = LoopIR.Const(g.int("c"), T.int, SRC)
    cond = LoopIR.BinOp("==", E, c, T.bool, SRC) if side == "expr==c" else LoopIR.BinOp("==", c, E, T.bool, SRC)
    qkinds = [kind] + (["mod4"] if kind == "div4" else [])
    qk = g.choose(qkinds, "query.kind")
    qs = g.choose([_X1, _X2, _Y1], "query.sym")
    return {"self": mk_simp(g), "cond": cond, "__ghost__": {"E": E, "c": c, "query": _fact_expr(qk, qs), "kind": qk}}

def ev_q(e):
    if isinstance(e, LoopIR.ReadConfig):
        return S.cur().ghost.setdefault("cfgval", S.cur().fresh_int("cfg_a"))
    if isinstance(e, LoopIR.BinOp) and isinstance(e.lhs, LoopIR.ReadConfig):
        raise AssertionError
    return ev(e)

@cfa.requires
def _(a):
    return ev_q(a.ghost.E) == a.ghost.c.val      # we are inside the guard

cfa.entry = lambda g, it, fn, a: (it.call(fn, [a.self, a.cond]),
                                  it.call(LS.DoSimplify.is_known_constant, [a.self, a.ghost.query]))[1]
cfa.native_entry = lambda g, fn, a: (fn(a.self, a.cond),
                                     LS.DoSimplify.is_known_constant(a.self, a.ghost.query))[1]

@cfa.ensures("a served fact has the value of the queried expression")
def _(a):
    if a.result is None:
        return True
    return ev_q(a.result) == ev_q(a.ghost.query)

@cfa.ensures("no fact is served for a configuration read (it may have been written since the guard)")
def _(a):
    return a.result is None if a.ghost.kind == "config" else True


# ----------------------------------------------------------------------------
# DoSimplify.map_s : a branch / loop is removed only if it can never execute
#
# The real method is interpreted on a real little procedure; cursor plumbing
# (exo.core.internal_cursors) runs natively - it is the subject of C06.

from exo.core import internal_cursors as _ic
from exo.core.memory import DRAM

_ALL_EXPR_CTORS = (LoopIR.Read, LoopIR.Const, LoopIR.USub, LoopIR.BinOp, LoopIR.Extern,
                   LoopIR.WindowExpr, LoopIR.StrideExpr, LoopIR.ReadConfig)

_BX, _BY = Sym("bx"), Sym("by")

def _assign(sym, v):
    return LoopIR.Assign(sym, T.f32, [], LoopIR.Const(v, T.f32, SRC), SRC)

def _mk_proc(body):
    args = [LoopIR.fnarg(_BX, T.f32, DRAM, SRC), LoopIR.fnarg(_BY, T.f32, DRAM, SRC)]
    return LoopIR.proc("p", args, [], body, None, SRC)

def _simp_on(g, stmt):
    o = object.__new__(LS.DoSimplify)
    o.facts = ChainMap()
    o.ir = _mk_proc([stmt])
    o.fwd = lambda x: x
    o.provenance = None
    return o, _ic.Cursor.create(o.ir).body()[0]

cmi = contract("C12", F, "DoSimplify.map_s", name=F + "::DoSimplify.map_s[If]")
cmi.native_modules.add("exo.core.internal_cursors")

@cmi.inputs
def _(g):
    k = g.choose(["const", "opaque"], "cond")
    # a non-literal condition is represented by `n < c` (n a size argument)
    cond = LoopIR.Const(g.bool("b"), T.bool, SRC) if k == "const" else \
        LoopIR.BinOp("<", LoopIR.Read(Sym("n"), [], T.index, SRC),
                     LoopIR.Const(g.int("c"), T.int, SRC), T.bool, SRC)
    s1, s2 = _assign(_BX, 1.0), _assign(_BY, 2.0)
    has_else = g.choose([True, False], "else")
    stmt = LoopIR.If(cond, [s1], [s2] if has_else else [], SRC)
    o, sc = _simp_on(g, stmt)
    return {"self": o, "sc": sc, "__ghost__": {"cond": cond, "s1": s1, "s2": s2, "has_else": has_else, "k": k}}

@cmi.ensures("a branch is removed only if its condition is the matching literal")
def _(a):
    body = a.self.ir.body
    gh = a.ghost
    if len(body) == 1 and isinstance(body[0], LoopIR.If):
        # kept: nothing may have been lost
        st = body[0]
        return (st.body == [gh.s1] and st.orelse == ([gh.s2] if gh.has_else else [])
                and gh.k == "opaque" and st.cond == gh.cond)
    if gh.k != "const":
        return False
    b = gh.cond.val
    took_then = body == [gh.s1]
    took_else = (body == [gh.s2]) if gh.has_else else (len(body) == 1 and isinstance(body[0], LoopIR.Pass))
    if took_then:
        return b
    if took_else:
        return Not(b)
    return False


cmf = contract("C12", F, "DoSimplify.map_s", name=F + "::DoSimplify.map_s[For]")
cmf.native_modules.add("exo.core.internal_cursors")

@cmf.inputs
def _(g):
    def bound(nm):
        if g.choose(["const", "opaque"], nm) == "const":
            return LoopIR.Const(g.int(nm), T.int, SRC)
        return LoopIR.Read(Sym(nm), [], T.index, SRC)
    lo, hi = bound("lo"), bound("hi")
    s1 = _assign(_BX, 1.0)
    stmt = LoopIR.For(Sym("i"), lo, hi, [s1], LoopIR.Seq(), SRC)
    o, sc = _simp_on(g, stmt)
    return {"self": o, "sc": sc, "__ghost__": {"lo": lo, "hi": hi, "s1": s1}}

@cmf.ensures("a loop with a non-empty body is removed only if lo == hi literally")
def _(a):
    body = a.self.ir.body
    gh = a.ghost
    if len(body) == 1 and isinstance(body[0], LoopIR.For):
        st = body[0]
        return And(st.body == [gh.s1], ev(st.lo) == ev(gh.lo), ev(st.hi) == ev(gh.hi))
    # removed
    if not (isinstance(gh.lo, LoopIR.Const) and isinstance(gh.hi, LoopIR.Const)):
        return False
    return gh.lo.val == gh.hi.val


# ----------------------------------------------------------------------------
# _DoNormalize.map_s on a loop: the iterator's range (from the *normalised*
# bounds) is in the environment while the body is normalised, so a division or
# modulo in the body is only dropped when that is justified by the loop bounds.
# End-to-end over the real pass (closures not abstracted): literal divisors,
# symbolic loop bounds and offsets.

cnm = contract("C12", F, "_DoNormalize.map_s", name=F + "::_DoNormalize.map_s[For body]")
cnm.native_modules.add("exo.core.internal_cursors")
_NI, _NX = Sym("i"), Sym("x")

@cnm.inputs
def _(g):
    op = g.choose(["/", "%"], "op")
    d = g.choose([2, 4], "d")
    lo, hi = LoopIR.Const(g.int("lo"), T.int, SRC), LoopIR.Const(g.int("hi"), T.int, SRC)
    off = LoopIR.Const(g.int("b"), T.int, SRC)
    num = LoopIR.BinOp("+", LoopIR.Read(_NI, [], T.index, SRC), off, T.index, SRC)
    idx = LoopIR.BinOp(op, num, LoopIR.Const(d, T.int, SRC), T.index, SRC)
    st = LoopIR.Assign(_NX, T.f32, [idx], LoopIR.Const(1.0, T.f32, SRC), SRC)
    loop = LoopIR.For(_NI, lo, hi, [st], LoopIR.Seq(), SRC)
    ir = LoopIR.proc("p", [LoopIR.fnarg(_NX, T.Tensor([LoopIR.Const(64, T.int, SRC)], False, T.f32), DRAM, SRC)],
                     [], [loop], None, SRC)
    o = object.__new__(LS._DoNormalize)
    o.C = CSYM
    o.env = IndexRangeEnvironment(ir)
    o.ir = ir
    o.fwd = lambda x: x
    o.provenance = None
    return {"self": o, "sc": _ic.Cursor.create(ir).body()[0], "__ghost__": {"idx": idx, "lo": lo, "hi": hi}}

@cnm.requires
def _(a):
    gh = a.ghost
    return And(gh.lo.val <= rho(_NI), rho(_NI) < gh.hi.val)

@cnm.ensures("inside the loop the normalised index has the value of the original index")
def _(a):
    body = a.self.ir.body
    if not (len(body) == 1 and isinstance(body[0], LoopIR.For) and len(body[0].body) == 1):
        return False
    new_idx = body[0].body[0].idx[0]
    return And(ev(new_idx) == ev(a.ghost.idx), ev(body[0].lo) == a.ghost.lo.val, ev(body[0].hi) == a.ghost.hi.val)
