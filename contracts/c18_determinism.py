"""C18 - scheduling and compilation are deterministic.

Sub-engine D with the second origin kind `unordered` (pyvc/ownership.py): a
value is unordered if it is a set / frozenset (display, comprehension, set(),
set operators, results of functions and visitor passes returning sets), a dict
filled inside a loop over an unordered value, a view/wrapper of one of these
(keys/items/enumerate/zip/reversed/generator), a list built in such a loop or by
list()/tuple()/a list comprehension over one (order-*tainted*), or a parameter
that receives one of these at a resolved call site.

One obligation at every place where an unordered value is consumed in order:
    for | sorted | transfer (list()/tuple()/[.. for ..]/extend/+=) | join | format
    | pop | next | min | max | index | unpack | escape (argument of an un-analysed call)
discharged by one of
  R1 every unordered root has int/bool/None elements (hash = value: iteration
     order independent of PYTHONHASHSEED and of addresses; NOT str, NOT Sym),
  R2 (for) the body only performs order-insensitive updates (set add / dict
     keyed store / numeric or boolean accumulation / raise / constant return) or
     appends to lists that are themselves eventually sorted,
  R3 (sorted) the key is injective on the elements that can survive,
  R4 (transfer) every later ordered consumption of the produced list is
     discharged (it "went through sorted() with an injective key"),
  R5 the elements are keys of a module-level dict literal with <= 1 entry
     (at most one element: nothing to order),
  R6 the consumption only feeds an exception message (not program/C text).
Plus the value contract on Sym.__lt__ (strict total order, consistent with
__eq__, invariant under a uniform shift of _id).
"""
from __future__ import annotations
import ast, os, sys, time

from pyvc import ownership as OW
from pyvc.contract import contract
from pyvc.sym import And, Or, Not, Implies

TARGETS = [
    "src/exo/backend/LoopIR_compiler.py",
    "src/exo/rewrite/LoopIR_scheduling.py",
    "src/exo/core/prelude.py",
    "src/exo/core/LoopIR_pprint.py",
]
# analysed for return summaries / set-ness of results only (no obligations reported)
CONTEXT = [
    "src/exo/core/LoopIR.py",
    "src/exo/core/internal_cursors.py",
    "src/exo/core/memory.py",
    "src/exo/core/configs.py",
    "src/exo/core/extern.py",
    "src/exo/backend/mem_analysis.py",
    "src/exo/backend/prec_analysis.py",
    "src/exo/backend/win_analysis.py",
    "src/exo/backend/parallel_analysis.py",
    "src/exo/rewrite/new_eff.py",
    "src/exo/rewrite/range_analysis.py",
]

ENGINES = ["contracts.c18_determinism:run"]

SCHED = "src/exo/rewrite/LoopIR_scheduling.py"
COMP = "src/exo/backend/LoopIR_compiler.py"

# ---------------------------------------------------------------------------
# sidecar annotations

INT_SITES = {
    f"{SCHED}::DoUnrollBuffer::set#1":
        "used_allocs holds `.val` of LoopIR.Const index expressions (each add is guarded by "
        "isinstance(.., LoopIR.Const) and the value is used as a list index into buf_syms): Python ints, "
        "hash(int) = value, so the iteration order does not depend on PYTHONHASHSEED or addresses",
}
INJECTIVE_KEYS = {
    (COMP, "compile_to_strings", "lambda x: x.name", 1):
        "procedure names: the loop that follows raises TypeError('multiple procs named ..') on the first duplicate, "
        "so the key is injective on every list that survives",
    (COMP, "compile_to_strings", "lambda x: x.name", 2):
        "WindowStruct(name, definition) tuples collected in a set: the struct name encodes base type, rank and "
        "constness, which determine the definition text; equal names imply equal tuples, which the set has merged",
    (COMP, "_compile_externs", "lambda x: x[0].name() + x[1]", 1):
        "(extern, type-name) pairs: distinct externs used in one library are assumed to have distinct names "
        "(same-named externs would also clash in the emitted C)",
    (COMP, "_compile_memories", "lambda x: x.name()", 1):
        "memory classes: distinct memories used in one library are assumed to have distinct names "
        "(their global code would otherwise be emitted twice under one name)",
    (COMP, "compile_to_strings", "", 1):
        "needed_helpers holds keys of the module dict _static_helpers (Compiler._call_static_helper adds its "
        "`helper` argument, always a string literal at the call sites, and the very next use indexes "
        "_static_helpers with it): distinct strings, whose natural order is total and value-based",
    (COMP, "_compile_context_struct", "lambda x: x.name()", 1):
        "config names: the loop that follows raises TypeError('multiple configs named ..') on a duplicate",
}

ASSUMPTIONS = [
    "C18 ordering: set-ness is tracked for values created in, or returned (through inferred summaries) into, the "
    "analysed files; a parameter or attribute that holds a set without any analysed call site passing one is not seen",
    "C18 ordering: un-analysed callees are assumed not to iterate a set they are given into program text unless the "
    "set itself is passed (that is an `escape` obligation)",
    "C18 ordering: calls in pure position inside a loop over an unordered value (attribute getters, ADT "
    "constructors, name()) are assumed to have no order-relevant side effect; mutation sites inside such loops are "
    "classified individually",
    "C18: the text of exception messages is not part of the property (R6)",
    "C18: everything outside the four anchor files (FreeVars order feeding unification, z3 model choice, "
    "Sym._unq_count history beyond a uniform shift) is not covered",
    "C18 Sym.__lt__: names are modelled as elements of an arbitrary strict total order (integer codes); only "
    "`==` and `<` on names are used by the code",
] + [f"C18 int-elements annotation {k}: {v}" for k, v in INT_SITES.items()] \
  + [f"C18 injective-key annotation {k[0]}::{k[1]} key=`{k[2]}` #{k[3]}: {v}" for k, v in INJECTIVE_KEYS.items()]


# ---------------------------------------------------------------------------
# value contract: Sym.__lt__

c_lt = contract("C18", "src/exo/core/prelude.py", "Sym.__lt__")


def _mk_sym(g, tag):
    from exo.core.prelude import Sym
    s = Sym.__new__(Sym)
    s._nm = g.int(tag + "_name")      # code of the name in an arbitrary total order on strings
    s._id = g.int(tag + "_id")
    return s


def _spec_lt(x, y, k=0):
    return Or(x._nm < y._nm, And(x._nm == y._nm, x._id + k < y._id + k))


def _spec_eq(x, y):
    return And(x._nm == y._nm, x._id == y._id)


@c_lt.inputs
def _(g):
    a, b, c = _mk_sym(g, "a"), _mk_sym(g, "b"), _mk_sym(g, "c")
    return {"self": a, "rhs": b, "__ghost__": {"c": c, "k": g.int("k")}}


@c_lt.ensures("__lt__ is the lexicographic order on (name, id)")
def _(a):
    return a.result == _spec_lt(a.self, a.rhs)


@c_lt.ensures("consistent with __eq__: equal symbols are not ordered")
def _(a):
    return Implies(_spec_eq(a.self, a.rhs), Not(a.result))


@c_lt.ensures("total: two symbols that are not __eq__ are ordered one way")
def _(a):
    return Implies(Not(_spec_eq(a.self, a.rhs)), Or(a.result, _spec_lt(a.rhs, a.self)))


@c_lt.ensures("asymmetric")
def _(a):
    return Implies(a.result, Not(_spec_lt(a.rhs, a.self)))


@c_lt.ensures("transitive")
def _(a):
    return Implies(And(a.result, _spec_lt(a.rhs, a.ghost.c)), _spec_lt(a.self, a.ghost.c))


@c_lt.ensures("invariant under a uniform shift of _id")
def _(a):
    return a.result == _spec_lt(a.self, a.rhs, a.ghost.k)


# ---------------------------------------------------------------------------
# ordering obligations

SET_OK = {"call.add", "call.update", "call.discard", "call.remove", "ior", "iand", "isub", "ixor",
          "call.difference_update", "call.intersection_update", "call.setdefault"}
LIST_XFER = {"call.append", "call.extend", "call.insert", "iadd"}


def build(root=None):
    from pyvc.run import repo_root
    root = root or repo_root()
    cfg = OW.Config(int_sites=INT_SITES)
    an = OW.Analyzer(root, TARGETS + CONTEXT, cfg).run()
    return an, Orders(an).obligations() + key_obligations(root)


# ---------------------------------------------------------------------------
# sort keys are invariant under a uniform shift of symbol ids
#
# "independent of how many symbols were created earlier": an order may depend on
# Syms only through Sym.__lt__ (value contract above: invariant under a shift of
# _id).  A key that turns a value into text or a number by repr / str / format /
# f-string / id / hash compares decimal renderings of ids (or addresses): 'i_10' <
# 'i_8' flips with the counter.  One obligation per keyed ordering call
# (sorted / .sort / min / max) in the target files, whatever is being ordered.

_TEXTUAL = {"repr", "str", "id", "hash", "format", "ascii"}
TEXT_KEYS = {}      # (file, qualname, key text) -> why the rendered values cannot contain symbol ids


def key_obligations(root):
    out = []
    for rel in TARGETS:
        path = os.path.join(root, rel)
        if not os.path.exists(path):
            continue
        tree = ast.parse(open(path).read())
        for n in ast.walk(tree):
            for ch in ast.iter_child_nodes(n):
                ch._parent = n
        counters = {}
        for n in ast.walk(tree):
            if not isinstance(n, ast.Call):
                continue
            fn = n.func
            name = fn.id if isinstance(fn, ast.Name) else fn.attr if isinstance(fn, ast.Attribute) else None
            if name not in ("sorted", "sort", "min", "max"):
                continue
            key = next((k.value for k in n.keywords if k.arg == "key"), None)
            if key is None:
                continue
            f = _func_of(n)
            quals = []
            while f is not None and not isinstance(f, ast.Module):
                quals.append(f.name)
                f = _func_of(f)
            qual = ".".join(reversed(quals)) or "<module>"
            text = ast.unparse(key)
            base = f"{rel}::{qual}::order.key-shift-invariant({text})"
            k = counters[base] = counters.get(base, 0) + 1
            bad = []
            if isinstance(key, ast.Name) and key.id in _TEXTUAL:
                bad.append(key.id)
            for x in ast.walk(key):
                if isinstance(x, ast.Call) and isinstance(x.func, ast.Name) and x.func.id in _TEXTUAL:
                    bad.append(x.func.id)
                if isinstance(x, ast.Call) and isinstance(x.func, ast.Attribute) and x.func.attr in ("format", "__repr__", "__str__"):
                    bad.append("." + x.func.attr)
                if isinstance(x, ast.JoinedStr):
                    bad.append("f-string")
            why_ok = TEXT_KEYS.get((rel, qual, text))
            ok = not bad or why_ok is not None
            out.append(dict(id=f"{base}#{k}", file=rel, qual=qual, kind="key", line=n.lineno, text=text, ok=ok,
                            why=(why_ok or "the key compares attributes / Syms directly (no textual or numeric rendering)")
                            if ok else f"the key renders values with {sorted(set(bad))}: the order of two symbols then "
                                       f"depends on the decimal text of their ids, i.e. on how many symbols were created earlier",
                            roots=[], rec=None))
    return out


def _stmt_of(node):
    while node is not None and not isinstance(node, ast.stmt):
        node = getattr(node, "_parent", None)
    return node


def _func_of(node):
    node = getattr(node, "_parent", None)
    while node is not None and not isinstance(node, (ast.FunctionDef, ast.AsyncFunctionDef, ast.Module)):
        node = getattr(node, "_parent", None)
    return node


def _inside(node, anc):
    while node is not None:
        if node is anc:
            return True
        node = getattr(node, "_parent", None)
    return False


class Orders:
    def __init__(self, an):
        self.an = an
        self.recs = sorted(an.order_sites.values(),
                           key=lambda r: (r["mod"].rel, r["qual"], r["node"].lineno, r["node"].col_offset, r["kind"]))
        self.memo = {}
        self.key_ordinals = {}

    # ---- individual rules
    def roots(self, r):
        return self.an.roots(r["av"])

    def r1(self, r):
        rs = self.roots(r)
        if rs and all(self.an.deterministic_set(self.an.S(s)) for s in rs):
            labs = [self.an.site_label(self.an.S(s)) for s in rs]
            return f"R1: elements of every unordered root are ints ({', '.join(labs)})"
        return None

    def r6(self, r):
        st = _stmt_of(r["node"])
        if isinstance(st, (ast.Raise, ast.Assert)):
            return "R6: the value only feeds an exception message"
        if isinstance(st, ast.Assign) and all(isinstance(t, ast.Name) for t in st.targets):
            names = {t.id for t in st.targets}
            fn = _func_of(st)
            loads = [n for n in ast.walk(fn) if isinstance(n, ast.Name) and n.id in names
                     and isinstance(n.ctx, ast.Load)]
            if loads and all(isinstance(_stmt_of(n), (ast.Raise, ast.Assert)) for n in loads):
                return "R6: the value is only used in a raise statement (exception message)"
        return None

    def r5(self, r):
        """element used as key into a module-level dict literal with <= 1 entries"""
        node = r["node"]
        tgt = None
        if isinstance(node, (ast.ListComp, ast.GeneratorExp)) and len(node.generators) == 1 and \
                isinstance(node.generators[0].target, ast.Name):
            tgt, scope = node.generators[0].target.id, [node.elt]
        elif isinstance(node, ast.For) and isinstance(node.target, ast.Name):
            tgt, scope = node.target.id, node.body
        if tgt is None:
            return None
        for top in scope:
            for n in ast.walk(top):
                if isinstance(n, ast.Subscript) and isinstance(n.value, ast.Name) and \
                        isinstance(n.slice, ast.Name) and n.slice.id == tgt:
                    d = r["mod"].globals.get(n.value.id)
                    if isinstance(d, ast.Dict) and len(d.keys) <= 1:
                        return (f"R5: every element is a key of the module-level dict `{n.value.id}` which has "
                                f"{len(d.keys)} entry, so there is at most one element")
        return None

    def key_text(self, r):
        k = r["extra"].get("key")
        return ast.unparse(k) if k is not None else ""

    def r3(self, r):
        kt = self.key_text(r)
        base = (r["mod"].rel, r["qual"], kt)
        if "key_ord" not in r:
            n = self.key_ordinals[base] = self.key_ordinals.get(base, 0) + 1
            r["key_ord"] = n
        if not kt:
            rs = self.roots(r)
            el = set()
            for s in rs:
                el |= self.an.S(s).elem
            if el and all(a[0] == "I" and a[1] in ("int", "str", "bool") for a in el):
                return "R3: no key, elements are ints/strs (natural order is total and value-based)"
            why = INJECTIVE_KEYS.get(base + (r["key_ord"],))
            if why:
                return f"R3: no key, natural order is total on the elements by annotation: {why}"
            return None
        auto = self.dup_check_follows(r)
        if auto:
            return auto
        why = INJECTIVE_KEYS.get(base + (r["key_ord"],))
        if why:
            return f"R3: key `{kt}` injective by annotation: {why}"
        return None

    def dup_check_follows(self, r):
        """sorted(U, key=lambda x: K) directly iterated by `for v in ...:` whose body begins with
        `name = K[v]` / `if K[v] in seen: raise` ... `seen.add(K[v])`"""
        k = r["extra"].get("key")
        if not (isinstance(k, ast.Lambda) and len(k.args.args) == 1):
            return None
        par = getattr(r["node"], "_parent", None)
        if not (isinstance(par, ast.For) and par.iter is r["node"] and isinstance(par.target, ast.Name)):
            return None
        kx = ast.unparse(k.body).replace(k.args.args[0].arg, "\0")
        v = par.target.id
        alias = {}
        for st in par.body[:3]:
            if isinstance(st, ast.Assign) and len(st.targets) == 1 and isinstance(st.targets[0], ast.Name) and \
                    ast.unparse(st.value).replace(v, "\0") == kx:
                alias[st.targets[0].id] = True
            if isinstance(st, ast.If) and isinstance(st.test, ast.Compare) and len(st.test.ops) == 1 and \
                    isinstance(st.test.ops[0], ast.In) and any(isinstance(x, ast.Raise) for x in st.body):
                lhs = st.test.left
                if (isinstance(lhs, ast.Name) and lhs.id in alias) or ast.unparse(lhs).replace(v, "\0") == kx:
                    return (f"R3: key `{ast.unparse(k)}` is injective on survivors: the loop over the sorted result "
                            f"raises on the first duplicate key (checked syntactically)")
        return None

    def body_ok(self, r, visiting):
        """R2 for `for` loops."""
        an = self.an
        loop = r["node"]
        # syntactic part
        assigned = set()
        for st in loop.body:
            for n in ast.walk(st):
                if isinstance(n, (ast.Break, ast.Yield, ast.YieldFrom)):
                    return None, f"body contains {type(n).__name__.lower()}"
                if isinstance(n, ast.Return) and not (n.value is None or isinstance(n.value, ast.Constant)):
                    return None, "body returns a non-constant value (depends on which element is met first)"
                if isinstance(n, ast.Name) and isinstance(n.ctx, ast.Store):
                    assigned.add(n.id)
        for t in ast.walk(loop.target):
            if isinstance(t, ast.Name):
                assigned.add(t.id)
        fn = _func_of(loop)
        aug = {n.target.id for st in loop.body for n in ast.walk(st)
               if isinstance(n, ast.AugAssign) and isinstance(n.target, ast.Name)}
        for n in ast.walk(fn):
            if isinstance(n, ast.Name) and isinstance(n.ctx, ast.Load) and n.id in assigned - aug and \
                    not _inside(n, loop) and (n.lineno, n.col_offset) > (loop.lineno, loop.col_offset):
                # a plain local assigned in the loop and read afterwards keeps the value of the *last* element
                plain = [s for st in loop.body for s in ast.walk(st) if isinstance(s, ast.Assign)
                         and any(isinstance(t, ast.Name) and t.id == n.id for t in s.targets)
                         and not isinstance(s.value, ast.Constant)]
                if plain or n.id in {t.id for t in ast.walk(loop.target) if isinstance(t, ast.Name)}:
                    return None, f"local `{n.id}` assigned in the loop is read after it (last-element dependence)"
        # mutation sites executed inside the loop (directly, or in callees reached from it)
        myroots = self.roots(r)
        xfer = set()
        callees = {f for f, rs in getattr(an, "in_unordered_funcs", {}).items() if rs & myroots}
        for m in an.mut_sites.values():
            direct = id(loop) in m.get("in_unordered", ())
            via = f"{m['mod'].rel}::{m['qual']}" in callees
            if not (direct or via):
                continue
            kind, av = m["kind"], m["av"]
            sites = [an.S(a[1]) for a in av if a[0] in ("F", "O")]
            if av and all(a[0] == "I" for a in av):
                continue          # numeric / boolean accumulation
            if kind in ("iadd", "isub", "imul", "ior", "iand", "ixor") and not sites and \
                    m["extra"].get("rhs") and all(a[0] == "I" for a in m["extra"]["rhs"]):
                continue
            if not sites or len(sites) != len(av):
                return None, f"mutation `{m['kind']}` of `{m['text']}` (receiver not a local container) at line " \
                             f"{m['node'].lineno}"
            if all(s.kind in ("set", "dict") for s in sites) and (kind in SET_OK or kind in ("setitem", "delitem")):
                continue          # set add / keyed dict store: order-insensitive (dict becomes unordered itself)
            if all(s.kind in ("list", "val") for s in sites) and kind in LIST_XFER:
                xfer |= {s.sid for s in sites}
                continue
            return None, f"order-sensitive update `{kind}` of `{m['text']}` at line {m['node'].lineno}"
        for sid in xfer:
            ok, why = self.eventually_ok(sid, visiting)
            if not ok:
                return None, f"appends to a list whose order stays observable: {why}"
        msg = "R2: loop body only performs order-insensitive updates"
        if xfer:
            msg += " and appends to lists that are sorted with an injective key before any ordered use"
        return msg, None

    def eventually_ok(self, sid, visiting):
        if sid in visiting:
            return True, ""
        visiting = visiting | {sid}
        cons = [q for q in self.recs if sid in self.an.reach(q["av"])]
        if not cons:
            s = self.an.S(sid)
            return False, f"no ordered consumer of the list allocated at {s.file.split('/')[-1]}:{s.line} is visible " \
                          f"(it escapes the analysed code)"
        for q in cons:
            st, why = self.status(q, visiting)
            if st != "discharged":
                return False, f"consumer {q['kind']} at {q['mod'].rel.split('/')[-1]}:{q['node'].lineno}: {why}"
        return True, ""

    def status(self, r, visiting=frozenset()):
        key = id(r)
        if key in self.memo:
            return self.memo[key]
        res = self._status(r, visiting)
        if not visiting:
            self.memo[key] = res
        return res

    def _status(self, r, visiting):
        for rule in (self.r1, self.r6):
            w = rule(r)
            if w:
                return "discharged", w
        kind = r["kind"]
        if kind == "sorted":
            w = self.r3(r)
            return ("discharged", w) if w else \
                ("refuted", f"sorted key `{self.key_text(r) or '<none>'}` is not known to be injective on the elements")
        w = self.r5(r)
        if w:
            return "discharged", w
        if kind == "for":
            w, why = self.body_ok(r, visiting)
            return ("discharged", w) if w else ("refuted", why)
        if kind == "transfer":
            res = r["extra"].get("result")
            sids = res if isinstance(res, list) else [res] if res is not None else []
            if not sids:
                return "refuted", "ordered copy of an unordered value with unknown destination"
            for sid in sids:
                ok, why = self.eventually_ok(sid, visiting)
                if not ok:
                    return "refuted", why
            return "discharged", "R4: every ordered consumption of the produced list is discharged (sorted with an " \
                                 "injective key)"
        if kind in ("min", "max") and r["extra"].get("key") is None:
            return "discharged", "min/max without key: value-determined given the total order on the elements"
        return "refuted", f"`{kind}` consumes an unordered value in iteration order"

    # ---- obligations
    def obligations(self):
        an = self.an
        out = []
        counters = {}
        for r in self.recs:
            if r["mod"].rel not in TARGETS:
                continue
            canon = OW.canon_text(r["iter"], r["scope"])
            base = f"{r['mod'].rel}::{r['qual'] or '<module>'}::order.{r['kind']}({canon})"
            n = counters[base] = counters.get(base, 0) + 1
            r["oid"] = f"{base}#{n}"
        for r in self.recs:
            if r["mod"].rel not in TARGETS:
                continue
            st, why = self.status(r)
            roots = []
            for s in sorted(self.roots(r)):
                x = an.S(s)
                roots.append(f"{x.kind}@{x.file.split('/')[-1]}:{x.line}")
            out.append(dict(id=r["oid"], file=r["mod"].rel, qual=r["qual"], kind=r["kind"], line=r["node"].lineno,
                            text=ast.unparse(r["iter"])[:80], ok=(st == "discharged"), why=why, roots=roots, rec=r))
        return out


def discharge(obls):
    import z3
    t0 = time.time()
    slv = z3.Solver()
    for ob in obls:
        slv.push()
        rule = z3.Bool("some_rule_applies")
        slv.add(rule == z3.BoolVal(bool(ob["ok"])))
        slv.add(z3.Not(rule))
        r = slv.check()
        ob["status"] = "discharged" if r == z3.unsat else "refuted" if r == z3.sat else "unknown"
        slv.pop()
    return time.time() - t0


REPLAY = '''#!/venv/bin/python
"""C18 replay: compile / schedule small libraries in fresh interpreters with different
PYTHONHASHSEED values and with a different number of previously created symbols, and
diff the printed procedures, C and header text.  exit 1 = outputs differ."""
# property   : C18
# obligation : {oid}
# site       : {file}:{line}  {kind} over `{text}`
# refuted    : {why}
# unordered  : {roots}
import os, subprocess, sys
REPO = os.environ.get("VERIF_REPO", "/repo")
CHILD = r"""
from __future__ import annotations
import os, sys
sys.path.insert(0, os.path.join(os.environ.get("VERIF_REPO", "/repo"), "src"))
from exo import proc, DRAM, config, instr
from exo.core.prelude import Sym
from exo.libs.memories import DRAM_STATIC, DRAM_STACK
from exo.stdlib.scheduling import *
from exo.API import compile_procs_to_strings
for _ in range(int(os.environ.get("SYM_OFFSET", "0"))):
    Sym("pad")

@config
class CfgB:
    b: index
    q: index

@config
class CfgA:
    a: index

@proc
def leaf_z(n: size, x: f32[n]):
    for i in seq(0, n):
        x[i] = 0.0

@proc
def leaf_a(n: size, x: f32[n]):
    for i in seq(0, n):
        x[(i + n - 1) / 2] = 1.0

@proc
def mid(x: f32[16], y: [f32][16]):
    leaf_z(16, x)
    leaf_a(16, x)
    t: f32[16] @ DRAM_STATIC
    u: f32[16] @ DRAM_STACK
    for i in seq(0, 16):
        t[i] = x[i]
        u[i] = t[i]
        y[i] = u[i]
    CfgB.b = 3
    CfgA.a = 4

@proc
def top(x: f32[16], y: f32[16], z: f64[16]):
    mid(x, y[0:16])
    leaf_a(16, y)
    w: i8[16]
    for i in seq(0, 16):
        w[i] = 0.0
        z[i] = 1.0

@proc
def buf3(y: f32[6]):
    b: f32[3, 2]
    for i in seq(0, 2):
        b[2, i] = 1.0
        b[0, i] = 2.0
        b[1, i] = b[0, i] + b[2, i]
    for i in seq(0, 2):
        y[i] = b[0, i]
        y[2 + i] = b[1, i]
        y[4 + i] = b[2, i]

out = []
c, h = compile_procs_to_strings([top, buf3], "lib.h")
out += [c, h]
out.append(str(unroll_buffer(buf3, "b", 0)))
p = divide_loop(top, "i", 4, ["io", "ii"], tail="cut")
out.append(str(simplify(p)))
try:
    out.append(str(fission(mid, mid.find("t[_] = _").after())))
except Exception as e:
    out.append("fission: " + type(e).__name__)
out.append(str(extract_subproc(top, top.find_loop("i"), "sub")[0]))

@proc
def same(x: f32[64]):
    for i in seq(0, 8):
        for j in seq(0, 8):
            x[i + j] = 1.0

# two distinct iterators that print alike and carry the same coefficient; between their creation the symbol
# counter is (optionally) pushed over the next power of ten by unrelated symbols
q = divide_loop(same, "i", 4, ["i", "ii"], perfect=True)
if os.environ.get("SAMENAME_PAD") == "1":
    c = Sym("probe")._id
    for _ in range(10 ** len(str(c)) - c):
        Sym("pad")
q = divide_loop(q, "j", 4, ["i", "jj"], perfect=True)
out.append(str(simplify(q)))
sys.stdout.write("\\n=====\\n".join(out))
"""
import tempfile, shutil, atexit
_d = tempfile.mkdtemp(prefix="c18_child_", dir="/var/tmp")
atexit.register(shutil.rmtree, _d, True)
_child = os.path.join(_d, "session.py")
open(_child, "w").write(CHILD)
runs = []
for seed, off, pad in (("0", "0", "0"), ("1", "0", "0"), ("7", "13", "0"), ("4242", "1000", "0"), ("0", "0", "1")):
    r = subprocess.run([sys.executable, _child], capture_output=True, text=True,
                       env=dict(os.environ, PYTHONHASHSEED=seed, SYM_OFFSET=off, SAMENAME_PAD=pad, VERIF_REPO=REPO,
                                PYTHONDONTWRITEBYTECODE="1"))
    if r.returncode != 0:
        print("scenario failed to run:", r.stderr[-800:])
        print("verdict    : not-reproduced")
        sys.exit(0)
    runs.append(((seed, off, pad), r.stdout))
bad = False
for (k, o) in runs[1:]:
    if o != runs[0][1]:
        bad = True
        a, b = runs[0][1].splitlines(), o.splitlines()
        for i, (x, y) in enumerate(zip(a, b)):
            if x != y:
                print(f"OUTPUT-DIFFERS PYTHONHASHSEED/offset {{runs[0][0]}} vs {{k}} at line {{i}}:\\n  {{x}}\\n  {{y}}")
                break
        else:
            print(f"OUTPUT-DIFFERS in length for {{k}}")
print("verdict    :", "confirmed" if bad else "not-reproduced")
sys.exit(1 if bad else 0)
'''

_CONFIRM = {}


def confirm(script):
    import subprocess, tempfile, shutil
    from pyvc.run import repo_root
    if "r" in _CONFIRM:
        return _CONFIRM["r"]
    d = tempfile.mkdtemp(prefix="c18_replay_", dir="/var/tmp")
    try:
        p = os.path.join(d, "replay.py")
        with open(p, "w") as f:
            f.write(script)
        r = subprocess.run(["/venv/bin/python", p], capture_output=True, text=True, timeout=600,
                           env=dict(os.environ, VERIF_REPO=repo_root(), PYTHONDONTWRITEBYTECODE="1"))
        res = (r.returncode == 1 and "OUTPUT-DIFFERS" in r.stdout, (r.stdout + r.stderr)[-1500:])
    except Exception as e:  # noqa
        res = (False, f"replay could not run: {e}")
    finally:
        shutil.rmtree(d, ignore_errors=True)
    _CONFIRM["r"] = res
    return res


def run(tier="quick", seed=0):
    t0 = time.time()
    an, obls = build()
    solver_t = discharge(obls)
    res = dict(obligations=0, discharged=0, functions=[], assumptions=[], samples=[], violations=[],
               undecided=[], bounded=[], clauses={}, solver_time_s=round(solver_t, 3))
    for f in an.missing:
        res["undecided"].append(f"C18: file {f} not found")
    for u in sorted(set(an.unsupported)):
        res["undecided"].append(f"C18 ordering analysis: unsupported {u}")
    per_file = {f: [0, 0] for f in TARGETS}
    for ob in obls:
        res["obligations"] += 1
        per_file[ob["file"]][0] += 1
        res["clauses"][ob["id"]] = ob["status"]
        if ob["status"] == "discharged":
            res["discharged"] += 1
            per_file[ob["file"]][1] += 1
            if len(res["samples"]) < 3:
                res["samples"].append(f"{ob['id']}: {ob['why']}: unsat")
        elif ob["status"] == "refuted":
            script = REPLAY.format(oid=ob["id"], file=ob["file"], line=ob["line"], kind=ob["kind"],
                                   text=ob["text"].replace("\n", " "), why=ob["why"], roots=", ".join(ob["roots"]))
            ok, out = confirm(script)
            res["violations"].append(dict(obligation=ob["id"], confirmed=bool(ok), replay_script=script,
                                          detail=ob["why"], output=out))
        else:
            res["undecided"].append(f"{ob['id']}: solver returned unknown")
    nsets = sum(1 for s in an.site_by_id if s.kind == "set" and s.file in TARGETS)
    for f in TARGETS:
        n, d = per_file[f]
        k = sum(1 for s in an.site_by_id if s.kind == "set" and s.file == f)
        res["functions"].append(f"{f} (ordering: {k} set allocation sites, {n} ordered consumptions of unordered "
                                f"values, {d} discharged)")
    res["analysis"] = dict(rounds=an.rounds, set_sites=nsets, wall_s=round(time.time() - t0, 2))
    return res


def table(root=None):
    an, obls = build(root)
    discharge(obls)
    return {ob["id"]: ob["status"] for ob in obls}


if __name__ == "__main__":
    from pyvc.run import ensure_repo_on_path
    ensure_repo_on_path()
    an, obls = build()
    for ob in obls:
        print(("OK  " if ob["ok"] else "BAD ") + ob["id"], ob["line"], "\n       ", ob["why"], ob["roots"])
