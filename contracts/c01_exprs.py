"""C01 (a') - statement- and expression-level rewrites preserve the final store.

Targets: the public scheduling operations of src/exo/API_scheduling.py
(merge_writes, split_write, fold_into_reduce, inline_assign,
lift_reduce_constant, commute_expr, left_reassociate_expr, rewrite_expr,
bind_expr, specialize, delete_pass, eliminate_dead_code) *together with* the
`Do*` function of src/exo/rewrite/LoopIR_scheduling.py each of them calls: the
undecorated API function is the entry point that pyvc interprets (its guards are
part of the rewrite's side conditions - commute_expr / left_reassociate_expr /
merge_writes check the operator, the names and the types there) and the `Do*`
function is interpreted as its callee.  Cursor library, pattern matcher,
Alpha_Rename and `Procedure.__init__` run natively (assumed / verified
elsewhere: C06, C16, C11); `Check_*` calls are modular callees that log the
call and assume the fact asked (contracts/trace_ghost.py).

Each operation is run on a *real* little procedure

    def p(n: size, i: index, j: index, a: f32[16], b: f32[16], c: f32[16],
          s: f32, t: f32, u: f32, z: f32[2]):
        z[0] = 0.0          # sibling before
        <the statements being rewritten>
        z[1] = 5.0          # sibling after

Oracle (property text: "leaves exactly the same final contents in every output
buffer as the original, for every input ..., up to real-number algebra"): the
store semantics of contracts/stmt_ghost.py.  The obligation of every contract:
for every initial store (contents of all buffers: uninterpreted functions of
the index; literals and index arguments: symbolic), the body of the rewritten
procedure leaves the same value as the body of the original procedure in EVERY
location of EVERY argument buffer (compared at a fresh index tuple).  `+`, `*`
are the operations of the real field (z3 real arithmetic), two accesses a[i],
a[j] alias iff i == j (decided by the solver).

Sub-expressions are leaves with a concrete read set: a literal (symbolic
value), a read of another buffer, a read of the written buffer at the same or
at another index.

Shape classes marked `w.defect = ...` were ACCEPTED by the pinned tree and
refuted by the final-store clause (replayed natively, witness/F_C01e_*.py):
split_write with a second addend that reads the destination; inline_assign of
a location that is still live (argument, read after the block, aliasing read
x[j]) or whose right-hand side is overwritten before a use; lift_reduce_constant
with an accumulator that does not start at zero; bind_expr across a call that
writes what the expression reads; fold_into_reduce / bind_expr taking two
buffers that print alike for one.  All are repaired in /repo (one `fix:` commit
each); the shapes stay, the repaired code must now refuse them.  The
`defect_class` predicates are kept for known_findings.json style matching.

Unbounded: literal values, index arguments, buffer contents, loop bounds of
lift_reduce_constant (lock-step rule with a coupling relation, stmt_ghost) and
of loops that contain only `pass`.  Bounded: block lengths (<= 4 statements),
expression trees (<= 3 leaves), the loop next to a deleted / inserted `pass`
(literal trip counts 0, 1, 2, 3), reductions of lift_reduce_constant stand
directly in the loop body or under one guard.
"""
from __future__ import annotations
from pyvc.contract import contract, Args
from pyvc import sym as S
from pyvc.sym import And, Or, Not, Implies
from contracts.ghost import rho, SRC
from contracts import trace_ghost as TG
from contracts import stmt_ghost as SG
from contracts.trace_ghost import rd, cst, bop, for_, if_, evx, use_checks, calls
from exo.core.LoopIR import LoopIR, T
from exo.core.prelude import Sym
from exo.core.memory import DRAM
from exo.core import internal_cursors as ic
from exo.rewrite import LoopIR_scheduling as LS
from exo.rewrite.new_eff import SchedulingError
from exo.API import Procedure
from exo.API_cursors import lift_cursor

F = "src/exo/rewrite/LoopIR_scheduling.py"
FA = "src/exo/API_scheduling.py"
TG.checker_shims()
RLIMIT = 40_000_000

NATIVE_MODULES = ("exo.core.internal_cursors", "exo.core.LoopIR", "exo.frontend.pattern_match", "exo.API",
                  "exo.API_cursors", "exo.core.proc_eqv")

ASSUMPTIONS = [
    "C01(a'): the oracle is the store semantics of contracts/stmt_ghost.py (numeric values are real numbers, "
    "`+ - * /` the field operations; a[i] and a[j] alias iff i == j; a fresh buffer has arbitrary contents); "
    "floating-point rounding is outside the property ('up to real-number algebra')",
    "C01(a'): exo.core.internal_cursors, exo.frontend.pattern_match (match_pattern returns every match of the "
    "pattern below the cursor), Alpha_Rename, Procedure.__init__ run natively inside the interpreted functions "
    "(C06 / C16 / C11 state their contracts)",
    "C01(a'): a Check_* call that returns establishes the fact it was asked about for every input admitted by the "
    "procedure's assertions: Check_ExprEqvInContext(e0, e1) => e0 and e1 have the same value where the statement "
    "executes; Check_Aliasing => no two names denote overlapping storage (effect analysis + SMT: c01_conditions, "
    "c01_smt)",
    "C01(a') bounds of the proof: literals, index arguments, array contents and (for lift_reduce_constant) the trip "
    "count are symbolic (unbounded); the rewritten statements stand at the top level of the procedure between two "
    "sibling statements; right-hand sides are trees of at most three leaves (literal / read of another buffer / read "
    "of the written buffer at the same or another index); blocks have at most four statements; operators are "
    "enumerated over + - * /; functions that compare *printed* expressions (fold_into_reduce, inline_assign, "
    "bind_expr) are run with index arguments and the literals 0, 1 as indices; lift_reduce_constant: scaled "
    "reductions stand directly in the loop body or under one guard (lock-step rule, coupling acc_orig = v0 + "
    "c * (acc_new - v0)); delete_pass / insert_pass next to a statement inside a loop: literal trip counts 0..3; "
    "commute_expr with the cursor list [outer, inner] is excluded (dies inside the cursor library, C06's subject)",
]


# ----------------------------------------------------------------------------
# building blocks

def num(sym, idx=()):
    return LoopIR.Read(sym, list(idx), T.f32, SRC)


def lit(v):
    return LoopIR.Const(v, T.f32, SRC)


def nbop(op, a, b):
    return LoopIR.BinOp(op, a, b, T.f32, SRC)


def assign(sym, idx, rhs):
    return LoopIR.Assign(sym, T.f32, list(idx), rhs, SRC)


def reduce_(sym, idx, rhs):
    return LoopIR.Reduce(sym, T.f32, list(idx), rhs, SRC)


def mk_stmt(kind, sym, idx, rhs):
    return (assign if kind == "assign" else reduce_)(sym, idx, rhs)


class World:
    pass


def new_world(g):
    w = World()
    w.N, w.I, w.J = Sym("n"), Sym("i"), Sym("j")
    w.A, w.B, w.C = Sym("a"), Sym("b"), Sym("c")
    w.S, w.T_, w.U, w.Z = Sym("s"), Sym("t"), Sym("u"), Sym("z")
    w.pre = assign(w.Z, [cst(0)], lit(0.0))
    w.post = assign(w.Z, [cst(1)], lit(5.0))
    w.facts = []
    return w


def close_world(g, w, focus, facts=(), extra_args=()):
    """the procedure around the statements `focus`; `facts` are assertions of the procedure that state what the
    side-condition checks of the rewrite will ask (so that the real checks can succeed in the native replay; on
    the symbolic side they only restrict the valuation)"""
    w.focus = list(focus)
    w.facts = [f for f in facts if not all(isinstance(x, LoopIR.Const) for x in (f.lhs, f.rhs))]
    args = [TG.size_arg(w.N), LoopIR.fnarg(w.I, T.index, None, SRC), LoopIR.fnarg(w.J, T.index, None, SRC)]
    args += [TG.buf_arg(x, [16]) for x in (w.A, w.B, w.C)]
    args += [TG.buf_arg(x, []) for x in (w.S, w.T_, w.U)]
    args += [TG.buf_arg(w.Z, [2])] + list(extra_args)
    w.proc = TG.mk_proc(args, list(w.facts), [w.pre] + w.focus + [w.post])
    w.P = Procedure(w.proc)
    w.root = ic.Cursor.create(w.proc)
    w.cur = [w.root.body()[1 + k] for k in range(len(w.focus))]
    return w


def stmt_cursor(w, k):
    return lift_cursor(w.cur[k], w.P)


def block_cursor(w, lo, hi):
    return lift_cursor(w.root.body()[1 + lo:1 + hi], w.P)


def expr_cursor(w, k, *path):
    """API cursor to a sub-expression of focus statement k: path of attribute names / (attr, index) pairs"""
    c = w.cur[k]
    for p in path:
        c = c._child_node(*p) if isinstance(p, tuple) else c._child_node(p)
    return lift_cursor(c, w.P)


def valid_input(a):
    w = a.ghost.w
    return And([rho(w.N) > 0] + [evx(f) for f in w.facts])


def result_ir(a):
    r = a.result
    return r._loopir_proc if isinstance(r, Procedure) else r[0]


# ----------------------------------------------------------------------------
# locations and leaves

def g_index(g, w, name, kinds=("lit", "arg"), arg=None):
    """an index expression: a literal with a symbolic value, or an index argument"""
    k = g.choose(list(kinds), name + ".kind")
    if k == "lit":
        return cst(g.int(name))
    if k == "lit01":
        return cst(g.choose([0, 1], name))
    return rd(arg if arg is not None else w.I, T.index)


def g_leaf(g, w, name, lhs, kinds):
    """a leaf of a right-hand side.  lhs = (sym, idx): the location written by the statement(s) concerned.
    kinds: literal | other (read of a buffer that is not written) | lhs (read of the written location, same index
    nodes) | lhs_other (read of the written buffer at another index expression)"""
    k = g.choose(list(kinds), name)
    sym, idx = lhs
    if k == "literal":
        return lit(SG.fresh_real(name))
    if k == "other":
        return num(w.B, [rd(w.J, T.index)])
    if k == "other2":
        return num(w.C, [rd(w.J, T.index)])
    if k == "scalar":
        return num(w.T_)
    if k == "lhs":
        return num(sym, list(idx))
    if k == "lhs_other":
        assert idx, "a scalar has no other index"
        return num(sym, [rd(w.J, T.index)])
    raise AssertionError(k)


# ----------------------------------------------------------------------------
# clauses

LBL_FRAME = "signature, assertions and sibling statements are untouched"
LBL_SEM = "for every initial store the rewritten procedure leaves the same final contents in every argument buffer"


def stores(a):
    """final stores of the original and of the rewritten body from one arbitrary initial store"""
    w, ir = a.ghost.w, result_ir(a)
    init = SG.Init()
    so = SG.run(w.proc.body, SG.Store(init))
    sn = SG.run(ir.body, SG.Store(init))
    return so, sn


def report(a, so, sn):
    """replay only: show the two procedures and the locations whose final contents differ"""
    import os, sys
    d = SG.differences(so, sn, SG.observables(a.ghost.w.proc))
    if d and "/replay/" in os.path.abspath(sys.argv[0]):
        print("original procedure:\n" + str(a.ghost.w.proc))
        print("rewritten procedure:\n" + str(result_ir(a)))
        print("index arguments: " + ", ".join(f"{s.name()} = {v}" for s, v in a.g.ghost.get("rho", {}).values()))
        print("final contents differ at: " + "; ".join(d))


def install(c, names, checks=(), raises=(SchedulingError,), sem=None, frame=True):
    for m in NATIVE_MODULES:
        c.native_modules.add(m)
    c.requires(valid_input)
    c.rlimit = RLIMIT
    use_checks(c, *TG.CHECKS)
    for n in checks:
        c.callee(n, **TG.check_callee(n))
    for e in raises:
        c.raises(e, label=f"{e.__name__} is a documented way to refuse")
    c.entry = lambda g, it, fn, a: it.call(fn.func, [], {n: getattr(a, n) for n in names})
    c.native_entry = lambda g, fn, a: fn.func(**{n: getattr(a, n) for n in names})

    if frame:
        @c.ensures(LBL_FRAME)
        def _(a):
            w, ir = a.ghost.w, result_ir(a)
            return (isinstance(ir, LoopIR.proc) and ir.args == w.proc.args and ir.preds == w.proc.preds
                    and len(ir.body) >= 2 and ir.body[0] is w.pre and ir.body[-1] is w.post)

    if sem is None:
        @c.ensures(LBL_SEM)
        def _(a):
            so, sn = stores(a)
            if a.g.concrete:
                report(a, so, sn)
            return SG.same_contents(so, sn, SG.observables(a.ghost.w.proc))
    else:
        sem(c)
    return c


# ----------------------------------------------------------------------------
# merge_writes  ->  DoMergeWrites
#
#   a = e1 ; a = e2    ->  a = e2            a += e1 ; a = e2    ->  a = e2
#   a = e1 ; a += e2   ->  a = e1 + e2       a += e1 ; a += e2   ->  a += e1 + e2
# side conditions: same destination (name, type: API guard; indices: Check_ExprEqvInContext), the second
# right-hand side does not read the destination buffer.

c_mw = contract("C01", FA, "merge_writes", name=f"{FA}::merge_writes -> DoMergeWrites")


@c_mw.inputs
def _(g):
    w = new_world(g)
    k1 = g.choose(["assign", "reduce"], "first")
    k2 = g.choose(["assign", "reduce"], "second")
    dest = g.choose(["array, literal indices", "array, index arguments", "scalar", "different buffers"], "destination")
    facts = []
    if dest == "scalar":
        lhs1 = lhs2 = (w.S, [])
        e1 = g_leaf(g, w, "e1", lhs1, ["lhs"])
        e2 = g_leaf(g, w, "e2", lhs1, ["literal", "lhs"])
    elif dest == "array, index arguments":
        i1, i2 = rd(w.I, T.index), rd(w.J, T.index)
        if g.choose(["asserted equal", "unrelated"], "index arguments") == "asserted equal":
            facts.append(bop("==", i1, i2))
        lhs1, lhs2 = (w.A, [i1]), (w.A, [i2])
        e1 = g_leaf(g, w, "e1", lhs1, ["other2"])
        e2 = g_leaf(g, w, "e2", lhs1, ["other"])
    else:
        i1, i2 = cst(g.int("i1")), cst(g.int("i2"))
        lhs1 = (w.A, [i1])
        lhs2 = (w.A if dest != "different buffers" else w.B, [i2])
        e1 = g_leaf(g, w, "e1", lhs1, ["literal"])
        e2 = g_leaf(g, w, "e2", lhs1, ["other2", "lhs", "lhs_other"] if dest != "different buffers" else ["literal"])
    close_world(g, w, [mk_stmt(k1, lhs1[0], lhs1[1], e1), mk_stmt(k2, lhs2[0], lhs2[1], e2)], facts)
    return {"proc": w.P, "block_cursor": block_cursor(w, 0, 2), "__ghost__": {"w": w}}


install(c_mw, ["proc", "block_cursor"], raises=(SchedulingError, ValueError))


def _world_of(c, model, choices):
    """re-run the contract's generator on a counterexample's shape and values (for known-finding classes)"""
    from pyvc.sym import ConcreteCtx
    from pyvc.run import G
    ctx = ConcreteCtx(values=model, choices=choices)
    old = S.set_ctx(ctx)
    try:
        g = G(ctx)
        if c.setup:
            c.setup(g)
        return c.gen(g)["__ghost__"]["w"]
    finally:
        S.set_ctx(old)


def defect_class(name):
    """witness-class predicate for known_findings.json: the counterexample lies in the shape class `name`"""
    def pred(c, model, choices):
        return getattr(_world_of(c, model, choices), "defect", None) == name
    pred.__doc__ = f"counterexample of class {name}"
    return pred


# ----------------------------------------------------------------------------
# split_write  ->  DoSplitWrite
#
#   a = e1 + e2  ->  a = e1 ; a += e2          a += e1 + e2  ->  a += e1 ; a += e2
# correct only when e2 does not read the destination (it is evaluated after the first write)

c_sw = contract("C01", FA, "split_write", name=f"{FA}::split_write -> DoSplitWrite")


@c_sw.inputs
def _(g):
    w = new_world(g)
    kind = g.choose(["assign", "reduce"], "statement")
    dest = g.choose(["array", "scalar"], "destination")
    lhs = (w.A, [cst(g.int("i1"))]) if dest == "array" else (w.S, [])
    shape = g.choose(["L + R", "other operator", "not a binary operation"], "rhs")
    w.defect = None
    if shape == "L + R":
        L = g_leaf(g, w, "L", lhs, ["other2", "lhs"])
        Rk = g.choose(["other", "lhs"] + (["lhs_other"] if lhs[1] else []), "R")
        R_ = g_leaf(g, w, "R", lhs, [Rk])
        rhs = nbop("+", L, R_)
        if Rk in ("lhs", "lhs_other"):
            w.defect = "split_write: second addend reads the destination"
    elif shape == "other operator":
        rhs = nbop(g.choose(["-", "*", "/"], "op"), g_leaf(g, w, "L", lhs, ["other2"]), g_leaf(g, w, "R", lhs, ["other"]))
    else:
        rhs = g_leaf(g, w, "L", lhs, ["literal", "other"])
    close_world(g, w, [mk_stmt(kind, lhs[0], lhs[1], rhs)])
    return {"proc": w.P, "stmt": stmt_cursor(w, 0), "__ghost__": {"w": w}}


install(c_sw, ["proc", "stmt"])
split_write_reads_destination = defect_class("split_write: second addend reads the destination")


# ----------------------------------------------------------------------------
# fold_into_reduce  ->  DoFoldIntoReduce
#
#   a = a + e   ->   a += e        (the left operand must be a read of exactly the destination)

c_fr = contract("C01", FA, "fold_into_reduce", name=f"{FA}::fold_into_reduce -> DoFoldIntoReduce")


@c_fr.inputs
def _(g):
    w = new_world(g)
    w.A2 = Sym("a")             # another buffer that *prints* like the destination
    w.defect = None
    dest = g.choose(["array", "scalar"], "destination")
    if dest == "array":
        lhs = (w.A, [g.choose([cst(1), rd(w.I, T.index)], "i1")])
    else:
        lhs = (w.S, [])
    shape = g.choose(["X op e", "e + X", "not a binary operation"], "rhs")
    if shape == "not a binary operation":
        rhs = g_leaf(g, w, "e", lhs, ["literal", "lhs"])
    else:
        xk = g.choose(["lhs", "same printed index"] + (["lhs_other", "same name, other buffer"] if lhs[1] else [])
                      + ["other", "literal"], "X")
        if xk == "same printed index":
            X = num(lhs[0], [cst(i.val) if isinstance(i, LoopIR.Const) else rd(i.name, T.index) for i in lhs[1]])
        elif xk == "same name, other buffer":
            X = num(w.A2, list(lhs[1]))
            w.defect = "fold_into_reduce: buffers compared by printed name"
        else:
            X = g_leaf(g, w, "X", lhs, [xk])
        # operator and second operand vary for the accepted form only
        e = g_leaf(g, w, "e", lhs, ["other2", "lhs"] if xk == "lhs" else ["other2"])
        if shape == "e + X":
            rhs = nbop("+", e, X)
        else:
            rhs = nbop(g.choose(["+", "-", "*"], "op") if xk in ("lhs", "same printed index") else "+", X, e)
    close_world(g, w, [assign(lhs[0], lhs[1], rhs)], extra_args=[TG.buf_arg(w.A2, [16])] if w.defect else [])
    return {"proc": w.P, "assign": stmt_cursor(w, 0), "__ghost__": {"w": w}}


install(c_fr, ["proc", "assign"])
fold_same_printed_name = defect_class("fold_into_reduce: buffers compared by printed name")


# ----------------------------------------------------------------------------
# inline_assign  ->  DoInlineAssign
#
#   x = y ; s   ->   s[x -> y]        (the assignment is deleted)
# sound only if (1) nothing between the assignment and a replaced read writes what y reads or x, (2) every later
# read of the location x is replaced - in particular x is not an output of the procedure and is not read after
# the block, and no read x[j] with j == i escapes the textual match on x[i].

def alloc(sym, dims=()):
    t = T.f32 if not dims else T.Tensor([cst(d) for d in dims], False, T.f32)
    return LoopIR.Alloc(sym, t, DRAM, SRC)


c_ia = contract("C01", FA, "inline_assign", name=f"{FA}::inline_assign -> DoInlineAssign")


@c_ia.inputs
def _(g):
    w = new_world(g)
    w.X = Sym("x")
    w.defect = None
    target = g.choose(["local scalar", "local array", "argument"], "target")
    yk = g.choose(["scalar", "array element", "literal", "sum"], "y")
    y = {"scalar": lambda: num(w.T_), "array element": lambda: num(w.B, [rd(w.J, T.index)]),
         "literal": lambda: lit(SG.fresh_real("y")),
         "sum": lambda: nbop("+", num(w.T_), num(w.B, [rd(w.J, T.index)]))}[yk]()
    pre = []
    if target == "argument":
        x, xi = w.S, []
        w.defect = "inline_assign: the assigned location is still live"
    elif target == "local scalar":
        x, xi = w.X, []
        pre = [alloc(w.X)]
    else:
        x, xi = w.X, [rd(w.I, T.index)]
        pre = [alloc(w.X, [16]), assign(w.X, [rd(w.J, T.index)], lit(1.0))]
    asg = assign(x, xi, y)
    mid_kinds = ["nothing", "unrelated write"]
    if yk in ("scalar", "sum"):
        mid_kinds.append("writes what y reads")
    mid_kinds.append("writes x")
    mk = g.choose(mid_kinds, "between")
    mid = {"nothing": [], "unrelated write": [assign(w.C, [rd(w.J, T.index)], lit(2.0))],
           "writes what y reads": [assign(w.T_, [], lit(3.0))], "writes x": [assign(x, xi, lit(4.0))]}[mk]
    if mk == "writes what y reads":
        w.defect = w.defect or "inline_assign: an intervening statement writes what the right-hand side reads"
    uk = g.choose(["read of x"] + (["read of x at another index expression"] if xi else [])
                  + (["inside an if, x read after it"] if target == "local scalar" and mk == "nothing" else []), "use")
    if uk == "read of x":
        use = [assign(w.U, [], nbop("*", num(x, list(xi)), num(w.C, [rd(w.J, T.index)])))]
        cur = lambda: w.cur[len(pre)]
    elif uk == "read of x at another index expression":
        use = [assign(w.U, [], num(x, [rd(w.J, T.index)]))]
        w.defect = w.defect or "inline_assign: the assigned location is still live"
        cur = lambda: w.cur[len(pre)]
    else:
        cond = bop("<", rd(w.N, T.size), cst(g.int("c0")))
        inner = [asg, assign(w.U, [], num(x))]
        pre = pre + [assign(x, [], lit(1.0))]
        close_world(g, w, pre + [if_(cond, inner), assign(w.A, [cst(0)], num(x))])
        w.defect = "inline_assign: the assigned location is still live"
        return {"proc": w.P, "alloc_cursor": lift_cursor(w.cur[len(pre)].body()[0], w.P), "__ghost__": {"w": w}}
    close_world(g, w, pre + [asg] + mid + use)
    return {"proc": w.P, "alloc_cursor": lift_cursor(cur(), w.P), "__ghost__": {"w": w}}


install(c_ia, ["proc", "alloc_cursor"], raises=(SchedulingError, ValueError))
inline_assign_target_live = defect_class("inline_assign: the assigned location is still live")
inline_assign_rhs_overwritten = defect_class("inline_assign: an intervening statement writes what the right-hand side reads")


# ----------------------------------------------------------------------------
# lift_reduce_constant  ->  DoLiftConstant
#
#   x = 0.0                              x = 0.0
#   for i in seq(lo, hi):          ->    for i in seq(lo, hi):
#       x += c * y[i]                        x += y[i]
#                                        x = c * x
# sound only if the accumulator starts at zero (plain assignment of 0), every operation on it in the loop is such a
# scaled reduction with the same c, it is not read in the loop, and c has one value throughout (does not depend on
# the loop variable, is not written in the loop).
# The trip count is symbolic: the two loops are related by the lock-step rule of stmt_ghost with the coupling
#   acc_original = v0 + c * (acc_rewritten - v0)     (v0, c: values at loop entry),  all other locations equal.

LBL_ENTRY = "lock-step: same iteration space, and the coupling relation holds when the loops are entered"
LBL_STEP = "lock-step: one arbitrary iteration of both loop bodies preserves the coupling relation"

c_lc = contract("C01", FA, "lift_reduce_constant", name=f"{FA}::lift_reduce_constant -> DoLiftConstant")


LC_INIT = ["x = literal", "x += literal"]
LC_C = ["literal", "array element, fixed index", "depends on the loop variable", "written in the loop"]
LC_BODY = ["two reductions", "reduction under a guard", "reduction under a guard with else", "other statement too",
           "second reduction with another constant", "reduction that is not scaled", "assignment to the accumulator",
           "accumulator read in the loop", "reduction at another index"]


@c_lc.inputs
def _(g):
    w = new_world(g)
    w.K = Sym("k")
    w.defect = None
    acc = g.choose(["scalar", "array element"], "accumulator")
    x, xi = (w.S, []) if acc == "scalar" else (w.A, [cst(g.int("i1"))])
    # one base shape (x = 0.0; for k in seq(lo, n): x += t * c[k]) and every single variation of it
    var = g.choose(["base", "literal upper bound"] + LC_INIT + LC_C + LC_BODY, "variation")
    ik = var if var in LC_INIT else "x = 0.0"
    ck = var if var in LC_C else "scalar"
    bk = var if var in LC_BODY else "one reduction"
    if ik == "x = 0.0":
        init = assign(x, xi, lit(0.0))
    elif ik == "x = literal":
        init = assign(x, xi, lit(SG.fresh_real("v0")))
        w.defect = "lift_reduce_constant: the accumulator is not initialised to zero"
    else:
        init = reduce_(x, xi, lit(SG.fresh_real("v0")))
        w.defect = "lift_reduce_constant: the accumulator is not initialised to zero"
    k = rd(w.K, T.index)
    cexp = {"literal": lambda: lit(SG.fresh_real("c")), "scalar": lambda: num(w.T_),
            "array element, fixed index": lambda: num(w.B, [rd(w.J, T.index)]),
            "depends on the loop variable": lambda: num(w.B, [k]),
            "written in the loop": lambda: num(w.T_)}[ck]
    red = lambda: reduce_(x, list(xi), nbop("*", cexp(), num(w.C, [k])))
    if bk == "one reduction":
        body = [red()]
    elif bk == "two reductions":
        body = [red(), red()]
    elif bk.startswith("reduction under a guard"):
        body = [if_(bop("<", k, cst(g.int("c0"))), [red()], [red()] if bk.endswith("else") else [])]
    elif bk == "other statement too":
        body = [red(), assign(w.U, [], num(w.C, [k]))]
    elif bk == "second reduction with another constant":
        body = [red(), reduce_(x, list(xi), nbop("*", num(w.U), num(w.C, [k])))]
    elif bk == "reduction that is not scaled":
        body = [red(), reduce_(x, list(xi), num(w.C, [k]))]
    elif bk == "assignment to the accumulator":
        body = [red(), assign(x, list(xi), lit(1.0))]
    elif bk == "accumulator read in the loop":
        body = [red(), assign(w.U, [], num(x, list(xi)))]
    else:
        body = [red(), reduce_(x, [rd(w.J, T.index)] if xi else [], nbop("*", cexp(), num(w.C, [k])))]
    if ck == "written in the loop":
        body = body + [assign(w.T_, [], num(w.C, [k]))]
    lo = cst(g.int("lo"))
    hi = cst(g.int("hi")) if var == "literal upper bound" else rd(w.N, T.size)
    loop = for_(w.K, lo, hi, body)
    close_world(g, w, [init, loop], facts=[bop("<=", lo, hi)])
    w.acc, w.loop = (x, xi), loop
    return {"proc": w.P, "block_cursor": block_cursor(w, 0, 2), "__ghost__": {"w": w}}


def _lc_scaled_constant(w):
    """the scaling factor of the first scaled reduction to the accumulator in the loop body (proof hint only)"""
    def find(stmts):
        for s in stmts:
            if isinstance(s, LoopIR.Reduce) and s.name is w.acc[0] and isinstance(s.rhs, LoopIR.BinOp) \
                    and s.rhs.op == "*":
                return s.rhs.lhs
            if isinstance(s, LoopIR.If):
                r = find(s.body) or find(s.orelse)
                if r is not None:
                    return r
        return None
    return find(w.loop.body)


def _lc_run(a):
    """(entry, step, final) conditions of the lock-step proof, computed once per path"""
    if "lc" in a.g.ghost:
        return a.g.ghost["lc"]
    w, ir = a.ghost.w, result_ir(a)
    obs = SG.observables(w.proc)
    new = list(ir.body)
    loops = [k for k, s in enumerate(new) if isinstance(s, LoopIR.For)]
    if len(loops) != 1 or not isinstance(w.proc.body[2], LoopIR.For):
        res = (False, False, False)
    else:
        kl = loops[0]
        init = SG.Init()
        so = SG.run(w.proc.body[:2], SG.Store(init))
        sn = SG.run(new[:kl], SG.Store(init))
        x, xi = w.acc
        at = tuple(evx(i) for i in xi)
        v0 = so.read(x, at)
        cexp = _lc_scaled_constant(w)
        cval = SG.rval(cexp, so, {}) if cexp is not None else SG.R(1)

        def couple(sym, k, nv):
            if sym is not x:
                return nv
            return SG.rite(TG.tup_eq(k, at), v0 + cval * (nv - v0), nv)
        L = SG.Lockstep(w.proc.body[2], new[kl], so, sn, {}, couple)
        fo = SG.run(w.proc.body[3:], L.exit_o)
        fn = SG.run(new[kl + 1:], L.exit_n)
        if a.g.concrete:
            report(a, fo, fn)
        final = SG.same_contents(fo, fn, obs)
        res = (final, final, final) if a.g.concrete else (L.entry, L.step, final)
    a.g.ghost["lc"] = res
    return res


def _lc_sem(c):
    c.ensures(LBL_ENTRY)(lambda a: _lc_run(a)[0])
    c.ensures(LBL_STEP)(lambda a: _lc_run(a)[1])
    c.ensures(LBL_SEM)(lambda a: _lc_run(a)[2])


install(c_lc, ["proc", "block_cursor"], sem=_lc_sem)
lift_constant_nonzero_init = defect_class("lift_reduce_constant: the accumulator is not initialised to zero")


# ----------------------------------------------------------------------------
# commute_expr  ->  DoCommuteExpr          a op b  ->  b op a     (only + and * commute)

OPS = ["+", "-", "*", "/"]

c_cm = contract("C01", FA, "commute_expr", name=f"{FA}::commute_expr -> DoCommuteExpr")


@c_cm.inputs
def _(g):
    w = new_world(g)
    # (the order "outer then inner" dies with an AttributeError inside the cursor library: the forwarding of
    # an expression cursor through the replacement of its parent's operands is C06's subject, not a rewrite)
    which = g.choose(["inner", "outer", "inner then outer"], "cursors")
    if which == "inner":
        op, op2 = g.choose(OPS, "op"), "+"
    elif which == "outer":
        op, op2 = "*", g.choose(OPS, "op2")
    else:
        op, op2 = g.choose(["+", "*"], "op"), g.choose(["+", "*"], "op2")
    L, R_, M = num(w.B, [rd(w.J, T.index)]), num(w.C, [rd(w.J, T.index)]), lit(SG.fresh_real("m"))
    st = assign(w.A, [cst(g.int("i1"))], nbop(op2, nbop(op, L, R_), M))
    close_world(g, w, [st])
    inner, outer = expr_cursor(w, 0, "rhs", "lhs"), expr_cursor(w, 0, "rhs")
    cs = {"inner": [inner], "outer": [outer], "inner then outer": [inner, outer]}
    return {"proc": w.P, "expr_cursors": cs[which], "__ghost__": {"w": w}}


install(c_cm, ["proc", "expr_cursors"], raises=(SchedulingError, TypeError))


# ----------------------------------------------------------------------------
# left_reassociate_expr  ->  DoLeftReassociateExpr      a op (b op c)  ->  (a op b) op c    (op: + or *)

c_ra = contract("C01", FA, "left_reassociate_expr", name=f"{FA}::left_reassociate_expr -> DoLeftReassociateExpr")


@c_ra.inputs
def _(g):
    w = new_world(g)
    X, Y, W_ = num(w.B, [rd(w.J, T.index)]), num(w.C, [rd(w.J, T.index)]), num(w.T_)
    shape = g.choose(["a op (b op' c)", "right operand is not a binary operation"], "rhs")
    op = g.choose(OPS, "op")
    if shape == "a op (b op' c)":
        rhs = nbop(op, X, nbop(g.choose(OPS, "op'"), Y, W_))
    else:
        rhs = nbop(op, X, g.choose([Y, lit(SG.fresh_real("m"))], "right operand"))
    close_world(g, w, [mk_stmt(g.choose(["assign", "reduce"], "statement"), w.S, [], rhs)])
    return {"proc": w.P, "expr": expr_cursor(w, 0, "rhs"), "__ghost__": {"w": w}}


install(c_ra, ["proc", "expr"], raises=(SchedulingError, TypeError))


# ----------------------------------------------------------------------------
# rewrite_expr  ->  DoRewriteExpr      s  ->  s[e -> e']   provided Check_ExprEqvInContext(e, e') in the context of s

c_rw = contract("C01", FA, "rewrite_expr", name=f"{FA}::rewrite_expr -> DoRewriteExpr")


@c_rw.inputs
def _(g):
    w = new_world(g)
    e0 = bop("+", rd(w.I, T.index), cst(g.int("c0")))
    nk = g.choose(["argument", "literal", "sum"], "new expression")
    e1 = {"argument": lambda: rd(w.J, T.index), "literal": lambda: cst(g.int("c1")),
          "sum": lambda: bop("+", rd(w.J, T.index), cst(g.int("c1")))}[nk]()
    facts = [bop("==", e0, e1)] if g.choose(["asserted equal", "unrelated"], "facts") == "asserted equal" else []
    where = g.choose(["index of the written location", "index of a read", "operand of a guard"], "where")
    if where == "index of the written location":
        st = reduce_(w.A, [e0], num(w.B, [rd(w.J, T.index)]))
        path = [("idx", 0)]
    elif where == "index of a read":
        st = assign(w.S, [], nbop("*", num(w.A, [e0]), num(w.B, [rd(w.J, T.index)])))
        path = ["rhs", "lhs", ("idx", 0)]
    else:
        st = if_(bop("<", e0, rd(w.N, T.size)), [reduce_(w.S, [], lit(1.0))], [assign(w.S, [], lit(2.0))])
        path = ["cond", "lhs"]
    close_world(g, w, [st], facts)
    return {"proc": w.P, "expr_cursor": expr_cursor(w, 0, *path), "new_expr": e1, "__ghost__": {"w": w}}


install(c_rw, ["proc", "expr_cursor", "new_expr"])


# ----------------------------------------------------------------------------
# bind_expr  ->  DoBindExpr
#
#   s1[e] ; ... ; sk[e]   ->   b: R ; b = e ; s1[b] ; ... ; sk[b]
# every replaced occurrence must be the same expression, and nothing executed between `b = e` and a replaced
# occurrence may write what e reads

def callee_setting(sym_name, value):
    """def set_<name>(<name>: f32): <name> = value   (a real callee that writes its argument)"""
    p = Sym(sym_name)
    return LoopIR.proc("set_" + sym_name, [TG.buf_arg(p, [])], [], [assign(p, [], lit(value))], None, SRC)


c_be = contract("C01", FA, "bind_expr", name=f"{FA}::bind_expr -> DoBindExpr")


@c_be.inputs
def _(g):
    w = new_world(g)
    w.defect = None
    w.T2 = Sym("t")            # another buffer that prints like t
    E = lambda: nbop("*", num(w.T_), lit(2.0))
    first = g.choose(["s = e + b[j]", "t = e + b[j]", "s += e"], "first statement")
    s1 = {"s = e + b[j]": lambda: assign(w.S, [], nbop("+", E(), num(w.B, [rd(w.J, T.index)]))),
          "t = e + b[j]": lambda: assign(w.T_, [], nbop("+", E(), num(w.B, [rd(w.J, T.index)]))),
          "s += e": lambda: reduce_(w.S, [], E())}[first]()
    p1 = ["rhs", "lhs"] if first != "s += e" else ["rhs"]
    n = g.choose(["one occurrence", "two occurrences"], "occurrences")
    extra = []
    if n == "one occurrence":
        close_world(g, w, [s1, assign(w.U, [], nbop("*", E(), num(w.C, [rd(w.J, T.index)])))])
        curs = [expr_cursor(w, 0, *p1)]
    else:
        mk = g.choose(["nothing", "unrelated write", "writes what e reads", "call that writes what e reads",
                       "guarded write to what e reads", "second occurrence under a guard, after a write"], "between")
        mid = {"nothing": lambda: [], "unrelated write": lambda: [assign(w.A, [rd(w.I, T.index)], lit(1.0))],
               "writes what e reads": lambda: [assign(w.T_, [], lit(3.0))],
               "call that writes what e reads": lambda: [LoopIR.Call(callee_setting("q", 7.0), [num(w.T_)], SRC)],
               "guarded write to what e reads": lambda: [if_(bop("<", rd(w.N, T.size), cst(g.int("c0"))),
                                                              [assign(w.T_, [], lit(3.0))])],
               "second occurrence under a guard, after a write": lambda: None}[mk]()
        if mk == "call that writes what e reads":
            w.defect = "bind_expr: a call between the occurrences writes what the expression reads"
        if mk == "second occurrence under a guard, after a write":
            inner = assign(w.U, [], nbop("*", E(), num(w.C, [rd(w.J, T.index)])))
            guard = if_(bop("<", rd(w.N, T.size), cst(g.int("c0"))), [assign(w.T_, [], lit(3.0)), inner])
            close_world(g, w, [s1, guard])
            curs = [expr_cursor(w, 0, *p1), lift_cursor(w.cur[1].body()[1]._child_node("rhs")._child_node("lhs"), w.P)]
            return {"proc": w.P, "expr_cursors": curs, "new_name": "bound", "__ghost__": {"w": w}}
        sk = g.choose(["same expression", "different literal", "same print, other buffer"], "second occurrence")
        if sk == "same expression":
            e2 = E()
        elif sk == "different literal":
            e2 = nbop("*", num(w.T_), lit(4.0))
        else:
            e2 = nbop("*", num(w.T2), lit(2.0))
            extra = [TG.buf_arg(w.T2, [])]
            w.defect = w.defect or "bind_expr: expressions compared by printed text"
        s3 = assign(w.U, [], nbop("*", e2, num(w.C, [rd(w.J, T.index)])))
        close_world(g, w, [s1] + mid + [s3], extra_args=extra)
        curs = [expr_cursor(w, 0, *p1), expr_cursor(w, len(mid) + 1, "rhs", "lhs")]
    return {"proc": w.P, "expr_cursors": curs, "new_name": "bound", "__ghost__": {"w": w}}


install(c_be, ["proc", "expr_cursors", "new_name"], checks=["Check_Aliasing"], raises=(SchedulingError, TypeError),
        frame=False)


@c_be.ensures("signature, assertions and sibling statements are untouched")
def _(a):
    w, ir = a.ghost.w, result_ir(a)
    return (isinstance(ir, LoopIR.proc) and ir.args == w.proc.args and ir.preds == w.proc.preds
            and len(ir.body) >= 2 and ir.body[0] is w.pre and ir.body[-1] is w.post)


bind_expr_call_writes = defect_class("bind_expr: a call between the occurrences writes what the expression reads")
bind_expr_printed_text = defect_class("bind_expr: expressions compared by printed text")


# ----------------------------------------------------------------------------
# specialize  ->  DoSpecialize
#
#   B   ->   if c0: B  elif c1: B ... else: B        (conditions evaluated in order, the last branch is B too)

c_sp = contract("C01", FA, "specialize", name=f"{FA}::specialize -> DoSpecialize")


@c_sp.inputs
def _(g):
    w = new_world(g)
    w.X = Sym("x")
    nb = g.choose(["one statement", "two statements", "block with a local buffer", "local buffer used after the block"],
                  "block")
    S1 = reduce_(w.S, [], num(w.B, [rd(w.J, T.index)]))
    S2 = assign(w.A, [cst(g.int("i1"))], nbop("*", num(w.S), lit(SG.fresh_real("m"))))
    if nb == "one statement":
        focus, hi = [S1], 1
    elif nb == "two statements":
        focus, hi = [S1, S2], 2
    elif nb == "block with a local buffer":
        focus, hi = [alloc(w.X), assign(w.X, [], num(w.T_)), assign(w.U, [], num(w.X))], 3
    else:
        focus, hi = [alloc(w.X), assign(w.X, [], num(w.T_)), assign(w.U, [], num(w.X))], 2
    nc = g.choose([1, 2], "number of conditions")
    ck = g.choose(["comparisons", "conjunction", "not a condition"], "conditions")
    def cond(k):
        c = bop("<" if k == 0 else "==", rd(w.N, T.size) if k == 0 else rd(w.I, T.index), cst(g.int(f"c{k}")))
        if ck == "conjunction":
            c = bop("and", c, bop("<=", rd(w.J, T.index), cst(g.int(f"d{k}"))))
        if ck == "not a condition" and k == nc - 1:
            c = bop("+", rd(w.I, T.index), cst(1))
        return c
    conds = [cond(k) for k in range(nc)]
    close_world(g, w, focus)
    return {"proc": w.P, "block": block_cursor(w, 0, hi), "conds": conds, "__ghost__": {"w": w}}


install(c_sp, ["proc", "block", "conds"])


# ----------------------------------------------------------------------------
# delete_pass  ->  DoDeletePass        removes `pass` statements (and loops that contain nothing else)

c_dp = contract("C01", FA, "delete_pass", name=f"{FA}::delete_pass -> DoDeletePass")


@c_dp.inputs
def _(g):
    w = new_world(g)
    w.K, w.K2 = Sym("k"), Sym("k2")
    PASS = lambda: LoopIR.Pass(SRC)
    lo, hi = cst(g.int("lo")), rd(w.N, T.size)
    shape = g.choose(["pass", "two passes", "loop of pass", "nest of pass", "pass next to a statement in a loop",
                      "pass in a guarded branch", "no pass"], "shape")
    St = reduce_(w.S, [], num(w.B, [rd(w.J, T.index)]))
    if shape == "pass":
        focus = [St, PASS()]
    elif shape == "two passes":
        focus = [PASS(), St, PASS()]
    elif shape == "loop of pass":
        focus = [St, for_(w.K, lo, hi, [PASS()])]
    elif shape == "nest of pass":
        focus = [for_(w.K, lo, hi, [for_(w.K2, cst(0), rd(w.K, T.index), [PASS()])]), St]
    elif shape == "pass next to a statement in a loop":
        focus = [for_(w.K, cst(0), cst(g.choose([0, 1, 3], "trip count")), [PASS(), reduce_(w.A, [rd(w.K, T.index)], num(w.T_))])]
    elif shape == "pass in a guarded branch":
        focus = [if_(bop("<", rd(w.N, T.size), cst(g.int("c0"))), [St, PASS()], [assign(w.S, [], lit(1.0)), PASS()])]
    else:
        focus = [St]
    close_world(g, w, focus)
    return {"proc": w.P, "__ghost__": {"w": w}}


install(c_dp, ["proc"])
c_dp.note("the loop that keeps a statement next to the deleted pass is checked for trip counts 0, 1, 3 (literal "
          "bounds); loops that contain only pass have symbolic bounds")


# ----------------------------------------------------------------------------
# eliminate_dead_code  ->  DoEliminateDeadCode (-> DoEliminateIfDeadBranch / DoEliminateDeadLoop), store semantics

c_dc = contract("C01", FA, "eliminate_dead_code", name=f"{FA}::eliminate_dead_code -> DoEliminateDeadCode")


@c_dc.inputs
def _(g):
    w = new_world(g)
    w.K = Sym("k")
    shape = g.choose(["if", "if with else", "loop"], "statement")
    facts = []
    St, Se = reduce_(w.S, [], num(w.B, [rd(w.J, T.index)])), assign(w.S, [], lit(SG.fresh_real("m")))
    if shape == "loop":
        lo, hi = cst(g.int("lo")), rd(w.N, T.size)
        if g.choose(["asserted empty", "any loop"], "facts") == "asserted empty":
            facts = [bop("<=", hi, lo)]
        focus = [for_(w.K, lo, hi, [reduce_(w.A, [rd(w.K, T.index)], num(w.T_))])]
    else:
        cond = bop("<", rd(w.N, T.size), cst(g.int("c0")))
        fk = g.choose(["asserted true", "asserted false", "unknown"], "facts")
        if fk == "asserted true":
            facts = [cond]
        elif fk == "asserted false":
            facts = [bop(">=", rd(w.N, T.size), cst(cond.rhs.val))]
        focus = [if_(cond, [St], [Se] if shape == "if with else" else [])]
    close_world(g, w, focus, facts)
    return {"proc": w.P, "stmt_cursor": stmt_cursor(w, 0), "__ghost__": {"w": w}}


install(c_dc, ["proc", "stmt_cursor"])


# ----------------------------------------------------------------------------
# insert_pass  ->  DoInsertPass        (a `pass` inserted at a gap changes nothing)

c_ip = contract("C01", FA, "insert_pass", name=f"{FA}::insert_pass -> DoInsertPass")


@c_ip.inputs
def _(g):
    w = new_world(g)
    w.K = Sym("k")
    St = reduce_(w.S, [], num(w.B, [rd(w.J, T.index)]))
    inner = assign(w.A, [rd(w.K, T.index)], num(w.T_))
    where = g.choose(["before a statement", "after a statement", "inside a loop body", "inside a guarded branch"], "gap")
    if where == "inside a loop body":
        close_world(g, w, [for_(w.K, cst(0), cst(g.choose([0, 2], "trip count")), [inner])])
        gap = w.cur[0].body()[0].after()
    elif where == "inside a guarded branch":
        close_world(g, w, [if_(bop("<", rd(w.N, T.size), cst(g.int("c0"))), [St])])
        gap = w.cur[0].body()[0].before()
    else:
        close_world(g, w, [St])
        gap = w.cur[0].before() if where == "before a statement" else w.cur[0].after()
    return {"proc": w.P, "gap_cursor": lift_cursor(gap, w.P), "__ghost__": {"w": w}}


install(c_ip, ["proc", "gap_cursor"])
