"""C09 (3) - what `Check_ParallelizeLoop` asks the solver (sub-engine B, DESIGN 2.6).

The real `Check_ParallelizeLoop`, `Disjoint_Memory`, `Commutes`, `getsets`,
`LUnion/LIsct/LDiff`, `lift_e` and the `A` constructors of
src/exo/rewrite/new_eff.py run natively; what is *stubbed* is the part that is
assumed anyway:
  * effect extraction: `stmts_effs(body)`, `expr_effs(bound)` return opaque
    effect tokens; `get_basic_locsets(token)` returns six abstract location-set
    atoms (global/heap reads, global/heap writes, reduces, allocs) that depend on
    the iteration variable the body was instantiated with (`SubstArgs` is a stub
    that records the renaming); `ContextExtraction` gives an abstract control
    predicate P and the identity environment;
  * `is_empty(ls)` returns an atom "ls is empty" (its lowering to points is assumed);
  * `SMTSolver`: `verify(phi)` is captured.  Assumed contract: it returns True
    only if phi is valid under the assumptions made (here: Maybe(P)).

The captured formula phi is then read classically (ForAll / ==> / and / or /
comparisons as the connectives they construct; Maybe(.) and Definitely(.) as
the identity - exact on formulas without unknowns; an atom "ls is empty" as
`forall x. not (x in ls)` with Union/Isct/Diff as set operations over
uninterpreted predicates  Kind(iteration value, location)), and z3 proves

  G1  P and phi  ==>  for all v != v' in [lo, hi), for all locations x:
        not ( (written or reduced by iteration v)(x)  and  (read, written or reduced by iteration v')(x) )
      - the property's sentence; includes the symmetry step from phi's `i < i'`.
  G2  P and phi  ==>  for all v in [lo, hi), x:  not ( modified by iteration v (x) and read by the bounds (x) )
  G3  a False answer of the solver makes the function raise SchedulingError; it
      returns normally only after a True answer on this very formula.
  G4  the second copy of the body is the first with the iterator renamed to a fresh
      symbol, and phi quantifies over exactly these two symbols.

Witness runs (sampled, not proof): seven small racy loops go through the real,
unstubbed check and must be rejected - a concrete failing input for the replay
when G1 is refuted by a change in Disjoint_Memory / getsets.
"""
from __future__ import annotations
import os, time, traceback
import z3

FN = "src/exo/rewrite/new_eff.py"
TGT = FN + "::Check_ParallelizeLoop+Disjoint_Memory [formula]"
KINDS = ["RG", "WG", "RH", "WH", "Red", "Alc"]


class Unsupported(Exception):
    pass


class EffTok:
    def __init__(self, tag, itervar):
        self.tag, self.itervar = tag, itervar

    def __repr__(self):
        return f"<eff {self.tag}({self.itervar})>"


def capture(lo_kind, verify_answer=True):
    """Runs the real Check_ParallelizeLoop with the stubs installed; returns a
    dict with the captured formula and the bookkeeping of the stubs."""
    import exo.rewrite.new_eff as NE
    from exo.core.LoopIR import LoopIR, T
    from exo.core.prelude import Sym, SrcInfo
    from exo.rewrite.new_analysis_core import A
    src = SrcInfo("c09", 0)
    rec = dict(assumed=[], verified=[], pushes=0, pops=0, subst=[], atoms={}, empties={}, order=[])
    i, n, m = Sym("i"), Sym("n"), Sym("m")
    P = Sym("P")
    lo = LoopIR.Const(0, T.int, src) if lo_kind == "const" else LoopIR.Read(m, [], T.size, src)
    hi = LoopIR.Read(n, [], T.size, src)
    body = [LoopIR.Pass(src)]
    loop = LoopIR.For(i, lo, hi, body, LoopIR.Par(), src)
    proc = LoopIR.proc("p", [], [], [loop], None, src)
    bodies = {id(loop.body): ("body", i)}       # the constructor copies the list

    class FakeCtxt:
        def __init__(self, p, stmts):
            rec["ctxt_args"] = (p, stmts)

        def get_control_predicate(self):
            return A.Var(P, T.bool, src)

        def get_pre_globenv(self):
            return lambda eff: eff

    class FakeSolver:
        def __init__(self, verbose=False):
            pass

        def push(self):
            rec["pushes"] += 1
            rec["order"].append("push")

        def pop(self):
            rec["pops"] += 1
            rec["order"].append("pop")

        def assume(self, e):
            rec["assumed"].append(e)
            rec["order"].append("assume")

        def verify(self, e):
            rec["verified"].append(e)
            rec["order"].append("verify")
            return verify_answer

    class FakeSubst:
        def __init__(self, stmts, env):
            self.stmts, self.env = stmts, env

        def result(self):
            tag, var = bodies[id(self.stmts)]
            if list(self.env) != [var]:
                raise Unsupported("SubstArgs is not applied to the loop iterator only")
            new = self.env[var]
            if not (isinstance(new, LoopIR.Read) and len(new.idx) == 0):
                raise Unsupported("iterator is not replaced by a plain variable")
            out = [LoopIR.Pass(src)]
            bodies[id(out)] = (tag, new.name)
            rec["subst"].append((var, new.name))
            rec.setdefault("keep", []).append(out)
            return out

    def stmts_effs(stmts):
        if id(stmts) not in bodies:
            raise Unsupported("effects of something that is not the loop body")
        return [EffTok(*bodies[id(stmts)])]

    def expr_effs(e):
        if e is lo:
            return [EffTok("lo", None)]
        if e is hi:
            return [EffTok("hi", None)]
        raise Unsupported("effects of an expression that is not a loop bound")

    def get_basic_locsets(effs):
        toks = list(effs)
        if not toks or not all(isinstance(t, EffTok) for t in toks):
            raise Unsupported("location sets of a non-token effect")
        tag = "+".join(t.tag for t in toks)
        vars_ = {t.itervar for t in toks}
        if len(vars_) != 1:
            raise Unsupported("effects of different iterations mixed")
        var = vars_.pop()
        tag = "bounds" if tag == "lo+hi" else tag
        out = []
        for k in KINDS:
            key = (k, tag, var)
            if key not in rec["atoms"]:
                s = Sym(f"{k}_{tag}")
                rec["atoms"][key] = s
                rec["atoms"][s] = key
            out.append(NE.LS.WholeBuf(rec["atoms"][key], 0))
        return tuple(out)

    def is_empty(ls):
        s = Sym("empty")
        rec["empties"][s] = ls
        return A.Var(s, T.bool, src)

    patch = dict(ContextExtraction=FakeCtxt, SMTSolver=FakeSolver, SubstArgs=FakeSubst, stmts_effs=stmts_effs,
                 expr_effs=expr_effs, get_basic_locsets=get_basic_locsets, is_empty=is_empty)
    old = {k: getattr(NE, k) for k in patch}
    for k, v in patch.items():
        setattr(NE, k, v)
    try:
        try:
            NE.Check_ParallelizeLoop(proc, loop)
            rec["raised"] = None
        except NE.SchedulingError as e:
            rec["raised"] = e
    finally:
        for k, v in old.items():
            setattr(NE, k, v)
    rec.update(i=i, n=n, m=m, P=P, lo=lo, hi=hi, loop=loop, proc=proc, LS=NE.LS, A=A)
    return rec


# ----------------------------------------------------------------------------
# classical reading of the captured formula

Loc = z3.DeclareSort("Loc")


class Reader:
    def __init__(self, rec):
        self.rec = rec
        self.consts = {}
        self.fns = {}

    def const(self, sym, sort="int"):
        if sym not in self.consts:
            self.consts[sym] = z3.Int(f"{sym.name()}_{id(sym) % 10000}") if sort == "int" else \
                z3.Bool(f"{sym.name()}_{id(sym) % 10000}")
        return self.consts[sym]

    def fn(self, kind, tag):
        if (kind, tag) not in self.fns:
            self.fns[(kind, tag)] = z3.Function(f"{kind}_{tag}", z3.IntSort(), Loc, z3.BoolSort())
        return self.fns[(kind, tag)]

    def member(self, ls, x, env):
        LS = self.rec["LS"]
        if isinstance(ls, LS.Empty):
            return z3.BoolVal(False)
        if isinstance(ls, LS.WholeBuf) and ls.name in self.rec["atoms"]:
            kind, tag, var = self.rec["atoms"][ls.name]
            if var is None:
                it = z3.IntVal(0)
            elif var in env:
                it = env[var]
            else:
                raise Unsupported(f"emptiness of a set of iteration {var} used outside its quantifier")
            return self.fn(kind, tag)(it, x)
        if isinstance(ls, LS.Union):
            return z3.Or(self.member(ls.lhs, x, env), self.member(ls.rhs, x, env))
        if isinstance(ls, LS.Isct):
            return z3.And(self.member(ls.lhs, x, env), self.member(ls.rhs, x, env))
        if isinstance(ls, LS.Diff):
            return z3.And(self.member(ls.lhs, x, env), z3.Not(self.member(ls.rhs, x, env)))
        raise Unsupported(f"location set {type(ls).__name__}")

    def tr(self, e, env):
        A = self.rec["A"]
        if isinstance(e, A.Const):
            return z3.BoolVal(e.val) if isinstance(e.val, bool) else z3.IntVal(e.val)
        if isinstance(e, A.Var):
            if e.name in self.rec["empties"]:
                x = z3.Const(f"x!{len(env)}_{id(e) % 1000}", Loc)
                return z3.ForAll([x], z3.Not(self.member(self.rec["empties"][e.name], x, env)))
            if e.name in env:
                return env[e.name]
            return self.const(e.name, "bool" if e.name is self.rec["P"] else "int")
        if isinstance(e, (A.Maybe, A.Definitely)):
            return self.tr(e.arg, env)
        if isinstance(e, A.Not):
            return z3.Not(self.tr(e.arg, env))
        if isinstance(e, A.USub):
            return -self.tr(e.arg, env)
        if isinstance(e, A.ForAll):
            v = z3.Int(f"{e.name.name()}_{id(e.name) % 10000}")
            return z3.ForAll([v], self.tr(e.arg, dict(env, **{}) | {e.name: v}))
        if isinstance(e, A.BinOp):
            l, r = self.tr(e.lhs, env), self.tr(e.rhs, env)
            op = str(e.op)
            table = {"and": lambda: z3.And(l, r), "or": lambda: z3.Or(l, r), "==>": lambda: z3.Implies(l, r),
                     "<": lambda: l < r, "<=": lambda: l <= r, ">": lambda: l > r, ">=": lambda: l >= r,
                     "==": lambda: l == r, "+": lambda: l + r, "-": lambda: l - r, "*": lambda: l * r}
            if op not in table:
                raise Unsupported(f"operator {op}")
            return table[op]()
        raise Unsupported(f"formula node {type(e).__name__}")

    def bound(self, e):
        from exo.core.LoopIR import LoopIR
        if isinstance(e, LoopIR.Const):
            return z3.IntVal(e.val)
        if isinstance(e, LoopIR.Read) and not e.idx:
            return self.const(e.name)
        raise Unsupported("loop bound shape")


def quantified_syms(e, A):
    out = []
    while isinstance(e, A.ForAll):
        out.append(e.name)
        e = e.arg
    return out


def conjuncts(e, A):
    if isinstance(e, A.BinOp) and str(e.op) == "and":
        return conjuncts(e.lhs, A) + conjuncts(e.rhs, A)
    return [e]


def _unsat(hyps, tmo):
    s = z3.Solver()
    s.set("timeout", tmo)
    for h in hyps:
        s.add(h)
    t0 = time.time()
    r = s.check()
    return r, (s.model() if r == z3.sat else None), time.time() - t0


# ----------------------------------------------------------------------------
# racy witnesses for the real, unstubbed check

WITNESS_SRC = '''
from __future__ import annotations
from exo import proc

@proc
def write_then_read_by_later(y: f32[8]):
    for i in par(0, 7):
        y[i + 1] = y[i]

@proc
def read_then_written_by_later(y: f32[9]):
    for i in par(0, 7):
        y[i] = y[i + 1]

@proc
def write_write(y: f32[8]):
    for i in par(0, 8):
        y[0] = 1.0

@proc
def reduce_reduce(y: f32[8], x: f32[8]):
    for i in par(0, 8):
        y[0] += x[i]

@proc
def reduce_read(y: f32[8], x: f32[8]):
    for i in par(0, 7):
        y[i] += 1.0
        x[i] = y[i + 1]

@proc
def reduce_then_read_by_later(y: f32[9], x: f32[8]):
    for i in par(0, 7):
        y[i + 1] += 1.0
        x[i] = y[i]

@proc
def write_reduce(y: f32[8]):
    for i in par(0, 7):
        y[i] = 1.0
        y[i + 1] += 2.0
'''
WITNESSES = ["write_then_read_by_later", "read_then_written_by_later", "write_write", "reduce_reduce",
             "reduce_read", "reduce_then_read_by_later", "write_reduce"]


def run_witnesses():
    """name -> True if the real check rejects the racy loop"""
    import importlib.util, tempfile, shutil
    from exo.rewrite.new_eff import Check_ParallelizeLoop, SchedulingError
    from exo.core.LoopIR import LoopIR
    d = tempfile.mkdtemp(prefix="pyvc_c09_", dir="/var/tmp")
    try:
        p = os.path.join(d, "c09_witness_procs.py")
        with open(p, "w") as f:
            f.write(WITNESS_SRC)
        spec = importlib.util.spec_from_file_location("c09_witness_procs", p)
        mod = importlib.util.module_from_spec(spec)
        spec.loader.exec_module(mod)
        out = {}
        for name in WITNESSES:
            ir = getattr(mod, name)._loopir_proc
            loop = next(s for s in ir.body if isinstance(s, LoopIR.For))
            try:
                Check_ParallelizeLoop(ir, loop)
                out[name] = False
            except SchedulingError:
                out[name] = True
        return out
    finally:
        shutil.rmtree(d, ignore_errors=True)


REPLAY = '''#!/venv/bin/python
"""Replay for C09 / Check_ParallelizeLoop: {what}
exit 1 = the real code accepts a racy parallel loop / violates the obligation."""
import sys
sys.path.insert(0, {verif!r})
from pyvc.run import ensure_repo_on_path
ensure_repo_on_path()
from contracts.c09_formula import replay
sys.exit(replay({what!r}))
'''


def replay(what):
    print("obligation :", what)
    res = run(tier="quick")
    for k, v in res["clauses"].items():
        print(f"  {v:10s} {k.split(' :: ')[-1]}")
    w = run_witnesses()
    for k, v in w.items():
        print(f"  racy loop {k}: {'rejected' if v else 'ACCEPTED by the real Check_ParallelizeLoop'}")
    bad = (not all(w.values())) or any(v == "refuted" for k, v in res["clauses"].items() if "[witness]" not in k)
    print("verdict    :", "confirmed" if not all(w.values()) else ("formula obligation refuted" if bad else "not-reproduced"))
    return 1 if bad else 0


# ----------------------------------------------------------------------------

def run(tier="quick", seed=0):
    tmo = 60000 if tier == "thorough" else 10000
    verif = os.path.dirname(os.path.dirname(os.path.abspath(__file__)))
    res = dict(obligations=0, discharged=0, functions=[TGT], samples=[], violations=[], undecided=[], bounded=[],
               clauses={}, solver_time_s=0.0, assumptions=[
        "C09: stmts_effs/expr_effs/get_basic_locsets summarise every access of an iteration (a read that follows a "
        "write of the same iteration to the same location may be dropped from the read set but is in the write set); "
        "G = get_pre_globenv() and the control predicate are as ContextExtraction computes them",
        "C09: is_empty(ls) holds only if ls has no element (lowering of location sets to points, assumed)",
        "C09: SMTSolver.verify(phi) returns True only if phi is valid under the assumptions made; the ternary "
        "Maybe/Definitely are read classically (exact when the formula has no unknown)",
        "C09: SubstArgs(body, {i: i'}) renames the iterator in the body and nothing else",
    ])

    def record(name, status, dt=0.0, confirmed=False, what=None):
        key = f"{TGT} :: {name}"
        res["obligations"] += 1
        res["solver_time_s"] += dt
        res["clauses"][key] = status if res["clauses"].get(key) != "refuted" else "refuted"
        if status == "discharged":
            res["discharged"] += 1
            if dt and len(res["samples"]) < 3:
                res["samples"].append(f"{key}: unsat in {dt:.3f}s")
        elif status == "refuted":
            if not any(v["obligation"] == key for v in res["violations"]):
                res["violations"].append(dict(obligation=key, confirmed=confirmed,
                                              replay_script=REPLAY.format(verif=verif, what=what or name)))
        else:
            res["undecided"].append(f"{key}: {what or 'solver returned unknown'}")

    try:
        wit = run_witnesses()
    except Exception as e:
        wit = None
        res["undecided"].append(f"{TGT}: witness procedures could not be built: {type(e).__name__}: {e}")
    racy_accepted = wit is not None and not all(wit.values())

    for lo_kind in ("const", "var"):
        try:
            rec = capture(lo_kind, True)
            rec_no = capture(lo_kind, False)
        except Unsupported as u:
            res["undecided"].append(f"{TGT}: unsupported: {u}")
            continue
        except Exception as e:
            res["undecided"].append(f"{TGT}: the stubbed run crashed: " + "".join(traceback.format_exception(e))[-600:])
            continue
        A = rec["A"]
        # G3 protocol
        ok3 = (rec["raised"] is None and len(rec["verified"]) == 1 and rec_no["raised"] is not None
               and len(rec_no["verified"]) == 1 and rec["pushes"] == rec["pops"] == 1
               and rec["order"].index("assume") < rec["order"].index("verify")
               and rec["ctxt_args"][0] is rec["proc"] and list(rec["ctxt_args"][1]) == [rec["loop"]])
        record(f"G3 [{lo_kind} lower bound] the solver's answer decides: False raises SchedulingError, True returns",
               "discharged" if ok3 else "refuted", confirmed=racy_accepted,
               what="G3 protocol: verify() answer ignored or not asked")
        if len(rec["verified"]) != 1:
            continue
        phi = rec["verified"][0]
        # G4 renaming
        i = rec["i"]
        ok4 = len(rec["subst"]) == 1 and rec["subst"][0][0] is i and rec["subst"][0][1] is not i
        i2 = rec["subst"][0][1] if rec["subst"] else None
        qs = [set(quantified_syms(c, A)) for c in conjuncts(phi, A)]
        ok4 = ok4 and any(q == {i, i2} for q in qs)
        record(f"G4 [{lo_kind} lower bound] second body = first with the iterator renamed to a fresh symbol; "
               f"phi quantifies over both", "discharged" if ok4 else "refuted", what="G4 renaming")
        if not ok4:
            continue
        try:
            R = Reader(rec)
            phi_z = R.tr(phi, {})
            hyps = [phi_z] + [R.tr(a, {}) for a in rec["assumed"]]
            lo, hi = R.bound(rec["lo"]), R.bound(rec["hi"])
            v, v2 = z3.Ints("v v2")
            x = z3.Const("x", Loc)

            def st(kind, it):
                return R.fn(kind, "body")(it, x)
            mod = lambda it: z3.Or(st("WG", it), st("WH", it), st("Red", it))
            acc = lambda it: z3.Or(st("RG", it), st("RH", it), st("WG", it), st("WH", it), st("Red", it))
            inb = lambda it: z3.And(lo <= it, it < hi)
            # canary: phi must not be contradictory (else G1/G2 would hold vacuously)
            r0, _, _ = _unsat(hyps + [inb(v), inb(v2), v != v2], tmo)
            if r0 != z3.sat:
                res["undecided"].append(f"{TGT}: canary failed: phi with two iterations in range is {r0}")
                continue
            r, m, dt = _unsat(hyps + [inb(v), inb(v2), v != v2, mod(v), acc(v2)], tmo)
            name = (f"G1 [{lo_kind} lower bound] phi valid ==> no location written/reduced by one iteration is "
                    f"read/written/reduced by another")
            if r == z3.unsat:
                record(name, "discharged", dt)
            elif r == z3.sat:
                record(name, "refuted", dt, confirmed=racy_accepted, what="G1 disjointness of distinct iterations")
            else:
                record(name, "unknown", dt)
            rb = lambda: z3.Or(R.fn("RG", "bounds")(z3.IntVal(0), x), R.fn("RH", "bounds")(z3.IntVal(0), x))
            r, m, dt = _unsat(hyps + [inb(v), mod(v), rb()], tmo)
            name = f"G2 [{lo_kind} lower bound] phi valid ==> no iteration modifies what the loop bounds read"
            if r == z3.unsat:
                record(name, "discharged", dt)
            elif r == z3.sat:
                record(name, "refuted", dt, what="G2 bounds unaffected by the body")
            else:
                record(name, "unknown", dt)
        except Unsupported as u:
            res["undecided"].append(f"{TGT}: unsupported: {u}")

    if wit is not None:
        for k, rejected in wit.items():
            key = f"{TGT} :: [witness] racy loop {k} is rejected by the real check"
            res["clauses"][key] = "bounded-pass" if rejected else "refuted"
            if not rejected:
                res["violations"].append(dict(obligation=key, confirmed=True,
                                              replay_script=REPLAY.format(verif=verif, what=f"racy loop {k} accepted")))
        res["bounded"].append(dict(target=FN + "::Check_ParallelizeLoop [racy witnesses, real effect extraction and solver]",
                                   cases=len(wit), bound="hand-written racy par loops (W-R, R-W, W-W, Red-Red, R-Red, Red-R, "
                                                         "W-Red); sampled, not proof"))
    res["solver_time_s"] = round(res["solver_time_s"], 3)
    return res


ENGINES = ["contracts.c09_formula:run"]
