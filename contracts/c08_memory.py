"""C08 - generated C is free of UB and leaks: placement of Free by MemoryAnalysis.

Property sentence used: the generated C "performs ... no use of freed memory ...
and it releases every buffer it allocates exactly once, after the last use and
on every path".  `MemoryAnalysis` (src/exo/backend/mem_analysis.py) decides
where `Free` goes; the compiler prints `free(x)` exactly there.

Specification (written from the sentence, NOT from `used_s`):
  storage(n)  the allocation a name denotes: follows window aliases
              (`w = a[...]` makes w denote a's storage, transitively).
  access(s)   names whose storage statement s touches, at any depth: targets of
              Assign/Reduce, every Read / WindowExpr in an expression (incl. call
              arguments and the right-hand side of a WindowStmt).
  For every block B and its image R under mem_stmts:
   S1  R without Free statements is B (nested blocks likewise),
   S2  for every `Alloc a` directly in B there is exactly one `Free a` directly
       in R - same block, hence on every path through it - with a's type and
       memory; R contains no other Free,
   S3  that Free comes after the Alloc and no statement after it (at any depth)
       accesses a name whose storage is a,
   S5  the pending list of the scope is empty again when the block is done.

Arguments:
 A. `run_blocks` (ENGINE, bounded, labelled so): every well-scoped block of up to
    5 statements (6 in the thorough tier) over the alphabet below is run through the
    real `MemoryAnalysis().run`, and S1-S5 are checked with the oracle of this file.
 B. pyvc contracts on the real source (unbounded in the content and depth of
    the statements; bounded in the number of *pending* allocations, <= 3):
    B1 `mem_stmts.used_e`, `mem_stmts.used_s`: structural induction - every name
       accessed by a statement, at any depth, is in the returned list (children are
       schematic; recursive calls are the induction hypothesis).
    B2 `mem_stmts` *step*: the function is run on a one-statement block [s] with an
       ARBITRARY statement s (schematic: `mem_s`/`used_s` modular, the latter
       returning any subset of the names in scope) from an arbitrary scope state
       (which allocations are pending, which windows alias which buffer - built
       by feeding Alloc/WindowStmt to the real `mem_s`).  Postcondition = one
       step of the reversed walk: exactly the pending allocations whose storage
       s accesses (through aliases) are freed, right after s; the others stay
       pending.  With the loop invariant
          "x pending  <=>  no Free x emitted yet,  and then no processed
           statement accesses storage x"
       (the walk processes the block back to front) this is S2/S3 for blocks of
       any length: the body of the `for b in reversed(...)` loop carries no other
       state than `body` and the pending list (checked syntactically below).
    B3 `mem_s`: If/For open a scope, process their bodies (induction hypothesis
       for `mem_stmts`), close it; Alloc registers a pending allocation with its
       type and memory in the innermost scope; leaves are unchanged.
    B4 `run`: body processed in a fresh scope, everything else copied, nothing
       pending at the end.
"""
from __future__ import annotations
import itertools, os, time
from pyvc.contract import contract
from pyvc import sym as S
from pyvc.sym import And, Or, Not, Implies, PathInfeasible
from pyvc.interp import Opaque, ProgExc
from contracts.ghost import _opaque_class, SRC
from exo.core.LoopIR import LoopIR, T
from exo.core.prelude import Sym
from exo.core.memory import DRAM

F = "src/exo/backend/mem_analysis.py"


def _MA():
    from exo.backend.mem_analysis import MemoryAnalysis
    return MemoryAnalysis


# ----------------------------------------------------------------------------
# the oracle (specification side)

def reads_e(e):
    if isinstance(e, LoopIR.Read):
        out = {e.name}
        for i in e.idx:
            out |= reads_e(i)
        return out
    if isinstance(e, LoopIR.WindowExpr):
        out = {e.name}
        for w in e.idx:
            if isinstance(w, LoopIR.Interval):
                out |= reads_e(w.lo) | reads_e(w.hi)
            else:
                out |= reads_e(w.pt)
        return out
    if isinstance(e, LoopIR.USub):
        return reads_e(e.arg)
    if isinstance(e, LoopIR.BinOp):
        return reads_e(e.lhs) | reads_e(e.rhs)
    if isinstance(e, LoopIR.Extern):
        out = set()
        for x in e.args:
            out |= reads_e(x)
        return out
    return set()            # Const, StrideExpr (no storage touched), ReadConfig


def access(s):
    if isinstance(s, (LoopIR.Assign, LoopIR.Reduce)):
        out = {s.name} | reads_e(s.rhs)
        for i in s.idx:
            out |= reads_e(i)
        return out
    if isinstance(s, (LoopIR.WriteConfig, LoopIR.WindowStmt)):
        return reads_e(s.rhs)
    if isinstance(s, LoopIR.If):
        out = reads_e(s.cond)
        for b in list(s.body) + list(s.orelse):
            out |= access(b)
        return out
    if isinstance(s, LoopIR.For):
        out = reads_e(s.lo) | reads_e(s.hi)
        for b in s.body:
            out |= access(b)
        return out
    if isinstance(s, LoopIR.Call):
        out = set()
        for e in s.args:
            out |= reads_e(e)
        return out
    if isinstance(s, LoopIR.Free):
        return {s.name}
    return set()            # Pass, Alloc


def aliases_of(stmts, al=None):
    al = {} if al is None else al
    for s in stmts:
        if isinstance(s, LoopIR.WindowStmt):
            al[s.name] = s.rhs.name
        elif isinstance(s, LoopIR.If):
            aliases_of(s.body, al)
            aliases_of(s.orelse, al)
        elif isinstance(s, LoopIR.For):
            aliases_of(s.body, al)
    return al


def storage(n, al):
    seen = set()
    while n in al and n not in seen:
        seen.add(n)
        n = al[n]
    return n


def strip_frees(stmts):
    out = []
    for s in stmts:
        if isinstance(s, LoopIR.Free):
            continue
        if isinstance(s, LoopIR.If):
            s = LoopIR.If(s.cond, strip_frees(s.body), strip_frees(s.orelse), s.srcinfo)
        elif isinstance(s, LoopIR.For):
            s = s.update(body=strip_frees(s.body))
        out.append(s)
    return out


S1 = "S1 statements are kept, only Free statements are added"
S2 = "S2 every Alloc has exactly one Free, in its own block; no other Free"
S3 = "S3 no statement after Free x accesses the storage of x (window aliases included)"
S5 = "S5 nothing is pending when a scope is closed (no AssertionError)"
CLAUSES = [S1, S2, S3, S5]


def check_block(R, al, bad):
    for i, s in enumerate(R):
        if isinstance(s, LoopIR.Alloc):
            fr = [j for j, t in enumerate(R) if isinstance(t, LoopIR.Free) and t.name is s.name]
            if len(fr) != 1 or fr[0] < i or R[fr[0]].type is not s.type or R[fr[0]].mem is not s.mem:
                bad.add(S2)
            for j in fr:
                for t in R[j + 1:]:
                    if any(storage(n, al) is s.name for n in access(t)):
                        bad.add(S3)
        elif isinstance(s, LoopIR.Free):
            if not any(isinstance(t, LoopIR.Alloc) and t.name is s.name for t in R[:i]):
                bad.add(S2)
        elif isinstance(s, LoopIR.If):
            check_block(list(s.body), al, bad)
            check_block(list(s.orelse), al, bad)
        elif isinstance(s, LoopIR.For):
            check_block(list(s.body), al, bad)


def check_proc(body, run):
    """Runs the real analysis on a procedure with this body; returns (result body | None, violated clauses)."""
    y = STD["y"]
    proc = LoopIR.proc("p", [LoopIR.fnarg(y, TEN8, DRAM, SRC)], [], body, None, SRC)
    bad = set()
    try:
        res = run(proc)
    except AssertionError:
        return None, [S5]
    R = list(res.body)
    if strip_frees(R) != list(body):
        bad.add(S1)
    check_block(R, aliases_of(body), bad)
    return R, sorted(bad)


# ----------------------------------------------------------------------------
# concrete statement alphabet

def c_int(v):
    return LoopIR.Const(v, T.int, SRC)


TEN8 = T.Tensor([c_int(8)], False, T.f32)
TEN4W = T.Tensor([c_int(4)], True, T.f32)
ONE = LoopIR.Const(1.0, T.f32, SRC)

STD = {k: Sym(k) for k in ["a", "b", "w", "w2", "v", "y", "c", "i", "u"]}

_WCALLEE = LoopIR.proc("takes_window", [LoopIR.fnarg(Sym("x"), TEN4W, DRAM, SRC)], [],
                       [LoopIR.Pass(SRC)], None, SRC)


def rd(n):
    return LoopIR.Read(n, [c_int(0)], T.f32, SRC)


def wr(n, rhs=None):
    return LoopIR.Assign(n, T.f32, [c_int(0)], rhs if rhs is not None else ONE, SRC)


def win_e(src, lo=0, hi=4):
    acc = [LoopIR.Interval(c_int(lo), c_int(hi), SRC)]
    wt = T.Window(TEN8, T.Tensor([c_int(hi - lo)], True, T.f32), src, acc)
    return LoopIR.WindowExpr(src, acc, wt, SRC)


def win(dst, src):
    return LoopIR.WindowStmt(dst, win_e(src), SRC)


def loop(body, it=None):
    return LoopIR.For(it or STD["i"], c_int(0), c_int(4), body, LoopIR.Seq(), SRC)


def cond(body, orelse=()):
    c = LoopIR.BinOp("<", LoopIR.Read(STD["i"], [], T.index, SRC), c_int(2), T.bool, SRC)
    return LoopIR.If(c, list(body), list(orelse), SRC)


def alloc(n):
    return LoopIR.Alloc(n, TEN8, DRAM, SRC)


def alphabet(n):
    """kind -> (declares, needs, builder).  Builders make fresh nodes each time."""
    s = n
    A = {
        "alloc a": ([s["a"]], [], lambda: alloc(s["a"])),
        "alloc b": ([s["b"]], [], lambda: alloc(s["b"])),
        "w = a[..]": ([s["w"]], [s["a"]], lambda: win(s["w"], s["a"])),
        "w2 = w[..]": ([s["w2"]], [s["w"]], lambda: win(s["w2"], s["w"])),
        "v = b[..]": ([s["v"]], [s["b"]], lambda: win(s["v"], s["b"])),
        "a[0] = 1": ([], [s["a"]], lambda: wr(s["a"])),
        "b[0] += 1": ([], [s["b"]], lambda: LoopIR.Reduce(s["b"], T.f32, [c_int(0)], ONE, SRC)),
        "w[0] = 1": ([], [s["w"]], lambda: wr(s["w"])),
        "y[0] = w2[0]": ([], [s["w2"]], lambda: wr(s["y"], rd(s["w2"]))),
        "y[0] = a[0] + v[0]": ([], [s["a"], s["v"]], lambda: wr(s["y"], LoopIR.BinOp("+", rd(s["a"]), rd(s["v"]), T.f32, SRC))),
        "y[0] = 1": ([], [], lambda: wr(s["y"])),
        "for: w[0] = 1": ([], [s["w"]], lambda: loop([wr(s["w"])])),
        "if: y[0] = v[0] else: pass": ([], [s["v"]], lambda: cond([wr(s["y"], rd(s["v"]))], [LoopIR.Pass(SRC)])),
        "if: pass else: a[0] = 1": ([], [s["a"]], lambda: cond([LoopIR.Pass(SRC)], [wr(s["a"])])),
        "call(w2)": ([], [s["w2"]], lambda: LoopIR.Call(_WCALLEE, [LoopIR.Read(s["w2"], [], TEN4W, SRC)], SRC)),
        "call(a[0:4])": ([], [s["a"]], lambda: LoopIR.Call(_WCALLEE, [win_e(s["a"])], SRC)),
        "for: alloc c; c[0] = a[0]": ([], [s["a"]], lambda: loop([alloc(s["c"]), wr(s["c"], rd(s["a"]))])),
        "for: u = a[..]; u[0] = 1": ([], [s["a"]], lambda: loop([win(s["u"], s["a"]), wr(s["u"])])),
    }
    return A


def blocks(maxlen):
    A = alphabet(STD)
    kinds = list(A)

    def rec(prefix, declared):
        if prefix:
            yield list(prefix)
        if len(prefix) == maxlen:
            return
        for k in kinds:
            dec, need, _ = A[k]
            if any(d in declared for d in dec) or any(nd not in declared for nd in need):
                continue
            prefix.append(k)
            yield from rec(prefix, declared | set(dec))
            prefix.pop()
    yield from rec([], frozenset())


def build(kinds, wrap=None):
    A = alphabet(STD)
    body = [A[k][2]() for k in kinds]
    if wrap == "for":
        return [loop(body, Sym("k"))]
    if wrap == "if":
        return [cond([LoopIR.Pass(SRC)], body)]
    return body


WRAPS = [None, "for", "if"]


def check_case(kinds, wrap):
    body = build(kinds, wrap)
    return check_proc(body, lambda p: _MA()().run(p))


REPLAY_BLOCK = '''#!/venv/bin/python
"""Replay of a bounded counterexample for MemoryAnalysis (C08): the block is
rebuilt, the real MemoryAnalysis().run is called, the clause is re-checked.
exit 1 = the real code violates the clause."""
import sys
sys.path.insert(0, {verif!r})
from pyvc.run import ensure_repo_on_path
ensure_repo_on_path()
from contracts.c08_memory import check_case
kinds, wrap = {kinds!r}, {wrap!r}
R, bad = check_case(kinds, wrap)
print("block    :", kinds, "inside", wrap or "the procedure body")
if R is not None:
    print("result   :")
    for s in R:
        for line in str(s).splitlines():
            print("    " + line)
print("violated :", bad)
sys.exit(1 if {clause!r} in bad else 0)
'''


def run_blocks(tier="quick", seed=0):
    """ENGINE (bounded stand-in): exhaustive well-scoped blocks through the real pass."""
    t0 = time.time()
    n = 6 if tier == "thorough" else 5
    verif = os.path.dirname(os.path.dirname(os.path.abspath(__file__)))
    tgt = F + "::MemoryAnalysis.run [bounded blocks]"
    first, cases = {}, 0
    for kinds in blocks(n):
        for wrap in WRAPS:
            cases += 1
            try:
                _, bad = check_case(kinds, wrap)
            except Exception as e:                         # any other exception of the pass
                bad = [f"no exception ({type(e).__name__})"]
            for b in bad:
                first.setdefault(b, (list(kinds), wrap))
    viol = [dict(obligation=f"{tgt} :: {b}", confirmed=True,
                 replay_script=REPLAY_BLOCK.format(verif=verif, kinds=k, wrap=w, clause=b))
            for b, (k, w) in sorted(first.items())]
    return dict(obligations=0, discharged=0, functions=[tgt], assumptions=[], samples=[], violations=viol,
                undecided=[], solver_time_s=0.0, wall_s=round(time.time() - t0, 2),
                bounded=[dict(target=tgt, cases=cases,
                              bound=f"all well-scoped blocks of 1..{n} statements over {len(alphabet(STD))} statement "
                                    f"kinds (allocs a,b; windows w=a[..], w2=w[..], v=b[..]; direct, aliased, nested "
                                    f"and call uses), as procedure body / For body / else branch")],
                clauses={f"{tgt} :: {c}": ("refuted" if c in first else "bounded-pass") for c in CLAUSES})


ENGINES = ["contracts.c08_memory:run_blocks"]
ASSUMPTIONS = [
    "C08: every binder (Alloc, WindowStmt, For, argument) introduces a fresh Sym (front end / Alpha_Rename), so one "
    "alias map per procedure is scope-correct",
    "C08: Memory.alloc/free macro text, the C compiler and libc are outside the contracts; the compiler prints "
    "free(x) exactly at the Free statements (comp_s, not under contract here)",
    "C08: composition of the one-step contract of mem_stmts into blocks of any length is by the loop invariant stated "
    "in contracts/c08_memory.py (meta-argument; cross-checked by the bounded block engine)",
    "C08: the one-step contract enumerates scope states with at most 3 pending allocations, window chains of length "
    "<= 2 and one outer scope; the statement itself is arbitrary (schematic)",
    "C08: const-ness of arguments/window structs and the '/' '%' emission guards are not covered by this module",
]


# ============================================================================
# B. pyvc contracts
# ============================================================================

def _wit(o):
    return getattr(o, "_wit", None)


def o_expr(g, name):
    """schematic expression; `_wit` = an arbitrary name it reads"""
    w = Sym("n_" + name)
    g.int("pick_" + name)
    if g.concrete:
        return LoopIR.Read(w, [c_int(0)], T.f32, SRC)
    o = _opaque_class(LoopIR.expr)(name, None, T.f32, ())
    object.__setattr__(o, "_wit", w)
    return o


def o_stmt(g, name):
    """schematic statement; `_wit` = an arbitrary name it accesses (at any depth)"""
    w = Sym("n_" + name)
    k = g.int("pick_" + name)
    if g.concrete:
        k = k % 3
        if k == 0:
            return wr(w)
        if k == 1:
            return loop([cond([LoopIR.Pass(SRC)], [wr(STD["y"], rd(w))])], Sym("k"))
        return LoopIR.Call(_WCALLEE, [win_e(w)], SRC)
    o = _opaque_class(LoopIR.stmt)(name, None, None, ())
    object.__setattr__(o, "_wit", w)
    return o


def o_stmt_m(g, name):
    """schematic child for mem_s / run; in replay mode it allocates a buffer of
    its own, so that a block that was not processed shows as a missing Free"""
    if not g.concrete:
        return o_stmt(g, name)
    k = g.int("pick_" + name) % 2
    c = Sym("c_" + name)
    return loop([alloc(c), wr(c)], Sym("k")) if k else alloc(c)


_reads_e0, _access0 = reads_e, access


def reads_e(e):                                   # noqa: F811  (oracle extended to schematic leaves)
    if isinstance(e, Opaque):
        return {_wit(e)}
    return _reads_e0(e)


def access(s):                                    # noqa: F811
    if isinstance(s, Opaque):
        return {_wit(s)}
    return _access0(s)


def _contains(lst, n):
    return any(n is r for r in lst)


def ih_used(g, a):
    """Induction hypothesis of used_e / used_s on a schematic child: the result
    contains every name the child reads/accesses (witness), possibly more."""
    x = a.e if hasattr(a, "e") else a.s
    extra = Sym("other")
    return g.choose([[_wit(x)], [extra, _wit(x), extra]], "ih.used")


def _outer_mem_stmts(g):
    return {"self": _MA()(), "stmts": [LoopIR.Pass(SRC)]}


def _children(g, mk, name, lens):
    n = g.choose(list(lens), name + ".len")
    return [mk(g, f"{name}{i}") for i in range(n)]


def _cfg():
    from exo.core.configs import Config
    from exo.core.LoopIR import UAST
    c = _cfg.__dict__.get("c")
    if c is None:
        c = _cfg.__dict__["c"] = Config("Cfg", [("f", UAST.F32())], False)
    return c


# --- B1 used_e ----------------------------------------------------------------

cue = contract("C08", F, "MemoryAnalysis.mem_stmts.used_e")
cue.outer_inputs = _outer_mem_stmts
cue.callee("MemoryAnalysis.mem_stmts.used_e", result=ih_used, assumed=False,
           note="induction hypothesis (sub-expressions)")


@cue.inputs
def _(g):
    from exo.libs.externs import sin
    k = g.choose(["Read", "USub", "BinOp", "Extern", "WindowExpr", "StrideExpr", "Const", "ReadConfig"], "expr")
    n = STD["a"]
    if k == "Read":
        e = LoopIR.Read(n, _children(g, o_expr, "i", (0, 1, 2)), T.f32, SRC)
    elif k == "USub":
        e = LoopIR.USub(o_expr(g, "arg"), T.f32, SRC)
    elif k == "BinOp":
        e = LoopIR.BinOp("+", o_expr(g, "lhs"), o_expr(g, "rhs"), T.f32, SRC)
    elif k == "Extern":
        e = LoopIR.Extern(sin, _children(g, o_expr, "x", (1, 2)), T.f32, SRC)
    elif k == "WindowExpr":
        e = win_e(n)
    elif k == "StrideExpr":
        e = LoopIR.StrideExpr(n, 0, T.stride, SRC)
    elif k == "Const":
        e = ONE
    else:
        e = LoopIR.ReadConfig(_cfg(), "f", T.f32, SRC)
    return {"e": e}


@cue.ensures("every name the expression reads, at any depth, is reported")
def _(a):
    return all(_contains(a.result, n) for n in reads_e(a.e))


# --- B1 used_s ----------------------------------------------------------------

cus = contract("C08", F, "MemoryAnalysis.mem_stmts.used_s")
cus.outer_inputs = _outer_mem_stmts
cus.callee("MemoryAnalysis.mem_stmts.used_e", result=ih_used, assumed=False, note="proved above")
cus.callee("MemoryAnalysis.mem_stmts.used_s", result=ih_used, assumed=False,
           note="induction hypothesis (child statements)")

STMT_KINDS = ["Assign", "Reduce", "WriteConfig", "If", "For", "Alloc", "Call", "WindowStmt", "Pass"]


@cus.inputs
def _(g):
    k = g.choose(STMT_KINDS, "stmt")
    n = STD["a"]
    if k == "Assign":
        s = LoopIR.Assign(n, T.f32, [c_int(0)], o_expr(g, "rhs"), SRC)
    elif k == "Reduce":
        s = LoopIR.Reduce(n, T.f32, [c_int(0)], o_expr(g, "rhs"), SRC)
    elif k == "WriteConfig":
        s = LoopIR.WriteConfig(_cfg(), "f", o_expr(g, "rhs"), SRC)
    elif k == "If":
        s = LoopIR.If(o_expr(g, "cond"), _children(g, o_stmt, "b", (1, 2)), _children(g, o_stmt, "e", (0, 1, 2)), SRC)
    elif k == "For":
        s = LoopIR.For(STD["i"], c_int(0), c_int(4), _children(g, o_stmt, "b", (1, 2, 3)), LoopIR.Seq(), SRC)
    elif k == "Alloc":
        s = alloc(n)
    elif k == "Call":
        s = LoopIR.Call(_WCALLEE, _children(g, o_expr, "x", (0, 1, 2)), SRC)
    elif k == "WindowStmt":
        s = LoopIR.WindowStmt(STD["w"], o_expr(g, "rhs"), SRC)
    else:
        s = LoopIR.Pass(SRC)
    return {"s": s}


@cus.ensures("every name the statement accesses, at any depth, is reported")
def _(a):
    return all(_contains(a.result, n) for n in access(a.s))


@cus.ensures("an Alloc reports its own name (so that an unused buffer is still freed)")
def _(a):
    return _contains(a.result, a.s.name) if isinstance(a.s, LoopIR.Alloc) else True


def _native_used(g, fn, a):
    """Replay of used_e/used_s: the closure is observed through the real
    mem_stmts on the block [alloc n ; X] - every accessed name n that the
    closure does not report gets its Free *before* X."""
    x = a.e if hasattr(a, "e") else a.s
    st = x if isinstance(x, LoopIR.stmt) else wr(STD["y"], x)
    names = sorted(access(st) - {STD["y"], STD["i"]}, key=lambda s: s.name())
    if isinstance(st, LoopIR.Alloc):
        names = [n for n in names if n is not st.name]
    me = _MA()()
    me.mem_env[STD["y"]] = DRAM
    me.push()
    block = [alloc(n) for n in names] + [st]
    R = me.mem_stmts(block)
    pos = next(i for i, t in enumerate(R) if t is st or t == st)
    reported = [t.name for t in R[pos + 1:] if isinstance(t, LoopIR.Free)]
    return reported


cue.native_entry = _native_used
cus.native_entry = _native_used


# --- B2 one step of the reversed walk -------------------------------------------

NAMES = {k: Sym(k) for k in ["a", "o", "t", "w", "w2", "v", "z", "u"]}

PREFIXES = {
    "nothing pending": [],
    "a": ["a"],
    "a, w=a[..]": ["a", ("w", "a")],
    "a, w=a[..], w2=w[..]": ["a", ("w", "a"), ("w2", "w")],
    "a, o, w=a[..], v=o[..]": ["a", "o", ("w", "a"), ("v", "o")],
    "a, o, t": ["a", "o", "t"],
    "a, w=z[..] (window of an outer buffer)": ["a", ("w", "z")],
}


def scope_state(prefix):
    """A MemoryAnalysis object in the middle of a procedure: argument u, an outer
    scope in which z is pending, and the current scope after the real `mem_s` saw
    the Alloc / WindowStmt statements of `prefix`."""
    me = _MA()()
    me.mem_env[NAMES["u"]] = DRAM
    me.push()
    stmts = [alloc(NAMES["z"])]
    me.mem_s(stmts[0])
    me.push()
    pend = []
    for p in PREFIXES[prefix]:
        st = alloc(NAMES[p]) if isinstance(p, str) else win(NAMES[p[0]], NAMES[p[1]])
        stmts.append(st)
        me.mem_s(st)
        if isinstance(p, str):
            pend.append(st)
    in_scope = [NAMES["u"], NAMES["z"]] + [NAMES[p if isinstance(p, str) else p[0]] for p in PREFIXES[prefix]]
    return me, stmts, pend, in_scope


def step_expect(a):
    al = aliases_of(a.ghost.stmts)
    U = a.ghost.U
    freed = [st for st in a.ghost.pend if any(storage(n, al) is st.name for n in U)]
    kept = [st for st in a.ghost.pend if st not in freed]
    return freed, kept


def _pending(me, level):
    return [(x[0], x[1], x[2]) for x in me.tofree[level]]


def step_clauses(c):
    @c.ensures("the statement comes first, followed only by Free statements")
    def _(a):
        R = list(a.result)
        first_ok = (R[0] is a.ghost.s) or (a.g.concrete and strip_frees(R[:1]) == strip_frees([a.ghost.s]))
        return len(R) >= 1 and first_ok and all(isinstance(t, LoopIR.Free) for t in R[1:])

    @c.ensures("exactly the pending allocations whose storage the statement accesses (through aliases) are freed, once")
    def _(a):
        freed, kept = step_expect(a)
        frees = [t for t in a.result if isinstance(t, LoopIR.Free)]
        ok = len(frees) == len(freed)
        for st in freed:
            ok = ok and sum(1 for t in frees if t.name is st.name and t.type is st.type and t.mem is st.mem) == 1
        return ok

    @c.ensures("the other allocations stay pending; outer scopes are not touched")
    def _(a):
        freed, kept = step_expect(a)
        now = _pending(a.self, -1)
        ok = len(now) == len(kept) and all(any(n[0] is st.name and n[1] is st.type and n[2] is st.mem for n in now)
                                           for st in kept)
        outer = _pending(a.self, -2)
        return ok and len(a.self.tofree) == 2 and len(outer) == 1 and outer[0][0] is NAMES["z"]


def subsets(xs):
    out = []
    for r in range(len(xs) + 1):
        out += [list(c) for c in itertools.combinations(xs, r)]
    return out


cst = contract("C08", F, "MemoryAnalysis.mem_stmts", name=F + "::MemoryAnalysis.mem_stmts [step, arbitrary statement]")
cst.callee("MemoryAnalysis.mem_s", result=lambda g, a: a.s, assumed=False,
           note="a schematic statement is returned as it is (contract of mem_s, B3, up to its nested blocks)")
cst.callee("MemoryAnalysis.mem_stmts.used_s", result=lambda g, a: list(g.ghost["U"]) + g.ghost["noise"], assumed=False,
           note="contract of used_s (B1): the result contains every name the statement accesses")


@cst.inputs
def _(g):
    prefix = g.choose(list(PREFIXES), "scope")
    me, stmts, pend, in_scope = scope_state(prefix)
    U = g.choose(subsets(in_scope), "accessed names")
    # used_s may report more than is accessed: a name that is not a buffer of this procedure
    g.ghost["noise"] = g.choose([[], [Sym("idx")]], "noise")
    g.ghost["U"] = U
    g.int("pick_s")
    if g.concrete:
        s = loop([wr(n) for n in U] or [LoopIR.Pass(SRC)], Sym("k"))
    else:
        s = _opaque_class(LoopIR.stmt)("s", None, None, ())
    return {"self": me, "stmts": [s], "__ghost__": dict(s=s, U=U, stmts=stmts, pend=pend)}


step_clauses(cst)


csc = contract("C08", F, "MemoryAnalysis.mem_stmts", name=F + "::MemoryAnalysis.mem_stmts [step, Alloc / WindowStmt / leaf]")


@csc.inputs
def _(g):
    prefix = g.choose(list(PREFIXES), "scope")
    me, stmts, pend, in_scope = scope_state(prefix)
    kinds = ["alloc x"] + [f"x = {n.name()}[..]" for n in in_scope] + [f"{n.name()}[0] = 1" for n in in_scope] \
        + [f"call({n.name()}[0:4])" for n in in_scope] + ["pass"]
    k = g.choose(kinds, "statement")
    x = Sym("x")
    if k == "alloc x":
        s = alloc(x)
        pend = pend + [s]
        U = [x]
    elif k == "pass":
        s, U = LoopIR.Pass(SRC), []
    else:
        n = next(n for n in in_scope if n.name() == (k.split("=")[1].strip()[:-4] if k.startswith("x =") else
                                                      k[5:-6] if k.startswith("call") else k.split("[")[0]))
        U = [n]
        s = win(x, n) if k.startswith("x =") else LoopIR.Call(_WCALLEE, [win_e(n)], SRC) if k.startswith("call") else wr(n)
    return {"self": me, "stmts": [s], "__ghost__": dict(s=s, U=U, stmts=stmts + [s], pend=pend)}


step_clauses(csc)


# --- B3 mem_s ---------------------------------------------------------------------

class Processed(list):
    """result of mem_stmts on a nested block (induction hypothesis)"""


def ih_mem_stmts(g, a):
    ev = g.ghost.setdefault("blocks", [])
    me = a.self
    ev.append(dict(stmts=a.stmts, depth=len(me.tofree), top_empty=len(me.tofree[-1]) == 0,
                   env_depth=len(me.mem_env.maps)))
    out = Processed([_opaque_class(LoopIR.stmt)(f"processed{len(ev)}", None, None, ())]) if not g.concrete else None
    ev[-1]["out"] = out
    return out


cms = contract("C08", F, "MemoryAnalysis.mem_s")
cms.callee("MemoryAnalysis.mem_stmts", result=ih_mem_stmts, assumed=False,
           note="induction hypothesis: a nested block is returned with its Frees (S1-S3) and leaves its scope empty (S5)")

MEMS_KINDS = ["Pass", "Assign", "Reduce", "WriteConfig", "WindowStmt", "Call", "If", "For", "Alloc", "Free"]


@cms.inputs
def _(g):
    g.ghost["blocks"] = []
    me, stmts, pend, in_scope = scope_state(g.choose(["nothing pending", "a, w=a[..]"], "scope"))
    k = g.choose(MEMS_KINDS, "stmt")
    a_ = NAMES["a"] if NAMES["a"] in in_scope else NAMES["u"]
    x = Sym("x")
    if k == "Pass":
        s = LoopIR.Pass(SRC)
    elif k == "Assign":
        s = wr(a_)
    elif k == "Reduce":
        s = LoopIR.Reduce(a_, T.f32, [c_int(0)], ONE, SRC)
    elif k == "WriteConfig":
        s = LoopIR.WriteConfig(_cfg(), "f", ONE, SRC)
    elif k == "WindowStmt":
        s = win(x, a_)
    elif k == "Call":
        s = LoopIR.Call(_WCALLEE, [win_e(a_)], SRC)
    elif k == "If":
        s = LoopIR.If(LoopIR.Const(True, T.bool, SRC), _children(g, o_stmt_m, "b", (1, 2)),
                      _children(g, o_stmt_m, "e", (0, 1)), SRC)
    elif k == "For":
        s = LoopIR.For(STD["i"], c_int(0), c_int(4), _children(g, o_stmt_m, "b", (1, 2)),
                       g.choose([LoopIR.Seq(), LoopIR.Par()], "mode"), SRC)
    elif k == "Alloc":
        s = alloc(x)
    else:
        s = LoopIR.Free(a_, TEN8, DRAM, SRC)
    return {"self": me, "s": s, "__ghost__": dict(pend=pend, before=[list(l) for l in me.tofree],
                                                   env_depth=len(me.mem_env.maps))}


def _same_scopes(a, but_top_gains=None):
    now = [list(l) for l in a.self.tofree]
    want = [list(l) for l in a.ghost.before]
    if but_top_gains is not None:
        want[-1] = want[-1] + [but_top_gains]
    if len(now) != len(want):
        return False
    for l1, l2 in zip(now, want):
        if len(l1) != len(l2) or any(x[0] is not y[0] or x[1] is not y[1] or x[2] is not y[2] for x, y in zip(l1, l2)):
            return False
    return len(a.self.mem_env.maps) == a.ghost.env_depth


@cms.ensures("If / For: every nested block is processed in a fresh, empty scope, and the scope is closed again")
def _(a):
    s = a.s
    if not isinstance(s, (LoopIR.If, LoopIR.For)):
        return True
    want = [s.body, s.orelse] if isinstance(s, LoopIR.If) else [s.body]
    if a.g.concrete:
        got = [a.result.body, a.result.orelse] if isinstance(s, LoopIR.If) else [a.result.body]
        bad = set()
        for x in got:
            check_block(list(x), {}, bad)
        return all(strip_frees(x) == list(y) for x, y in zip(got, want)) and _same_scopes(a) and not bad
    ev = a.g.ghost["blocks"]
    ok = len(ev) == len(want)
    for e, blk in zip(ev, want):
        ok = ok and list(e["stmts"]) == list(blk) and all(x is y for x, y in zip(e["stmts"], blk)) \
            and e["depth"] == len(a.ghost.before) + 1 and e["top_empty"] and e["env_depth"] == a.ghost.env_depth + 1
    r = a.result
    if isinstance(s, LoopIR.If):
        ok = ok and isinstance(r, LoopIR.If) and r.cond is s.cond and r.body == ev[0]["out"] and r.orelse == ev[1]["out"]
    else:
        ok = ok and isinstance(r, LoopIR.For) and r.iter is s.iter and r.lo is s.lo and r.hi is s.hi \
            and r.loop_mode is s.loop_mode and r.body == ev[0]["out"]
    return ok and _same_scopes(a)


@cms.ensures("Alloc: registered as pending in the innermost scope with its type and memory; statement unchanged")
def _(a):
    if not isinstance(a.s, LoopIR.Alloc):
        return True
    return a.result is a.s and _same_scopes(a, but_top_gains=(a.s.name, a.s.type, a.s.mem))


@cms.ensures("leaf statements are returned unchanged and leave the pending lists alone")
def _(a):
    if isinstance(a.s, (LoopIR.If, LoopIR.For, LoopIR.Alloc)):
        return True
    return a.result is a.s and _same_scopes(a)


cms.raises(AssertionError, when=lambda a: isinstance(a.s, LoopIR.Free),
           label="AssertionError only for a Free that is already present")


# --- B4 run -----------------------------------------------------------------------

crn = contract("C08", F, "MemoryAnalysis.run")
crn.callee("MemoryAnalysis.mem_stmts", result=ih_mem_stmts, assumed=False, note="contract of mem_stmts (B2 + invariant)")


@crn.inputs
def _(g):
    g.ghost["blocks"] = []
    body = _children(g, o_stmt_m, "s", (1, 2, 3))
    args = [LoopIR.fnarg(STD["y"], TEN8, DRAM, SRC), LoopIR.fnarg(Sym("n"), T.size, None, SRC)]
    preds = [LoopIR.Const(True, T.bool, SRC)]
    return {"self": _MA()(), "proc": LoopIR.proc("p", args, preds, body, None, SRC)}


@crn.ensures("the body is processed in one fresh scope; nothing is pending afterwards; the rest is copied")
def _(a):
    r, p = a.result, a.proc
    ok = r.name == p.name and list(r.args) == list(p.args) and list(r.preds) == list(p.preds) \
        and r.instr is p.instr and len(a.self.tofree) == 0
    if a.g.concrete:
        bad = set()
        check_block(list(r.body), {}, bad)
        return ok and strip_frees(r.body) == list(p.body) and not bad
    ev = a.g.ghost["blocks"]
    return ok and len(ev) == 1 and all(x is y for x, y in zip(ev[0]["stmts"], p.body)) \
        and len(ev[0]["stmts"]) == len(p.body) and ev[0]["depth"] == 1 and ev[0]["top_empty"] \
        and list(r.body) == list(ev[0]["out"])


# --- syntactic side condition of the step argument --------------------------------

def run_loop_shape(tier="quick", seed=0):
    """ENGINE: the reversed walk of mem_stmts is `for b in reversed([self.mem_s(b) for b in stmts])`
    whose body carries no state between iterations other than `body` and the fields
    of `self`; the function returns list(reversed(body)).  This is what makes
    "one step on an arbitrary state" (B2) compose into blocks of any length."""
    import ast
    from pyvc.run import repo_root
    tgt = F + "::MemoryAnalysis.mem_stmts [shape of the reversed walk]"
    res = dict(obligations=1, discharged=0, functions=[tgt], assumptions=[], samples=[], violations=[],
               undecided=[], bounded=[], clauses={}, solver_time_s=0.0)
    src = open(os.path.join(repo_root(), F)).read()
    fn = None
    for node in ast.walk(ast.parse(src)):
        if isinstance(node, ast.ClassDef) and node.name == "MemoryAnalysis":
            for st in node.body:
                if isinstance(st, ast.FunctionDef) and st.name == "mem_stmts":
                    fn = st
    why = None
    if fn is None:
        why = "mem_stmts not found"
    else:
        loops = [st for st in fn.body if isinstance(st, ast.For)]
        rets = [st for st in fn.body if isinstance(st, ast.Return)]
        if len(loops) != 1 or not isinstance(loops[0].target, ast.Name):
            why = "expected exactly one top-level for loop with a simple target"
        else:
            lp = loops[0]
            it = ast.unparse(lp.iter).replace(" ", "")
            if it != "reversed([self.mem_s(b)forbinstmts])":
                why = f"loop iterates over {ast.unparse(lp.iter)}"
            if any(isinstance(n, (ast.Break, ast.Continue, ast.Return)) for n in ast.walk(lp)) or lp.orelse:
                why = "break/continue/return/else in the walk"
            defined = {lp.target.id}
            allowed = {"body", "self", "used_s", "used_e", "LoopIR"}
            carried = set()

            def visit(stmts, defined):
                for st in stmts:
                    if isinstance(st, ast.For):
                        loads = {n.id for n in ast.walk(st.iter) if isinstance(n, ast.Name)}
                        carried.update(loads - defined - allowed)
                        inner = set(defined) | {n.id for n in ast.walk(st.target) if isinstance(n, ast.Name)}
                        visit(st.body, inner)
                        defined |= inner
                        continue
                    if isinstance(st, ast.If):
                        loads = {n.id for n in ast.walk(st.test) if isinstance(n, ast.Name)}
                        carried.update(loads - defined - allowed)
                        d1, d2 = set(defined), set(defined)
                        visit(st.body, d1)
                        visit(st.orelse, d2)
                        defined |= (d1 & d2)
                        continue
                    loads = {n.id for n in ast.walk(st) if isinstance(n, ast.Name) and isinstance(n.ctx, ast.Load)}
                    for n in ast.walk(st):          # names bound by comprehensions are local to them
                        if isinstance(n, ast.comprehension):
                            loads -= {x.id for x in ast.walk(n.target) if isinstance(x, ast.Name)}
                    if isinstance(st, ast.AugAssign) and isinstance(st.target, ast.Name):
                        loads.add(st.target.id)
                    carried.update(loads - defined - allowed)
                    comp_bound = {x.id for n in ast.walk(st) if isinstance(n, ast.comprehension)
                                  for x in ast.walk(n.target) if isinstance(x, ast.Name)}
                    for n in ast.walk(st):
                        if isinstance(n, ast.Name) and isinstance(n.ctx, ast.Store) and n.id not in comp_bound:
                            defined.add(n.id)
            visit(lp.body, defined)
            import builtins
            carried = {c for c in carried if not hasattr(builtins, c)}
            if carried:
                why = f"loop-carried locals besides `body`: {sorted(carried)}"
            if len(rets) == 0 or ast.unparse(rets[-1].value).replace(" ", "") != "list(reversed(body))":
                why = "the function does not return list(reversed(body))"
    key = f"{tgt} :: the walk carries only `body` and the pending list from one statement to the next"
    if why is None:
        res["discharged"] = 1
        res["clauses"][key] = "discharged"
    else:
        res["clauses"][key] = "unknown"
        res["undecided"].append(f"{tgt}: {why} - the one-step contract no longer composes; re-derive the invariant")
    return res


ENGINES = ["contracts.c08_memory:run_blocks", "contracts.c08_memory:run_loop_shape"]
