"""C08 - "no signed overflow or division by zero in index arithmetic; C '/' and
'%' only where the operands are proven non-negative": the emitted-C-text engine
of C02 (contracts/c02_ctext.py) decides exactly this for comp_cir and comp_e
(division by zero and the precondition of the floor helpers are part of every
query), so it is run for C08 as well (bounded in tree depth, reported as such)."""
ENGINES = ["contracts.c02_ctext:run"]
