"""C03 (a,b,c) - what `CheckBounds` asks the solver (sub-engine B, DESIGN 2.6).

The real src/exo/frontend/boundscheck.py runs natively (CheckBounds.__init__,
map_stmts, eff_e, translate_eff, check_bounds, check_in_bounds, check_pos_size,
check_non_negative, check_call_shape_eqv, expr_to_smt, lift_expr and the effect
algebra eff_*).  What is stubbed is the PySMT solver (contracts/bounds_ghost.py
`FakeSolver`): it keeps the assertion stack, records every `is_valid(phi)`
question with the assumptions in force and answers from a script.

Assumed contract of the real solver: is_valid(phi) returns True only if phi
follows from the assertions on the stack, for all values of all symbols.

Obligations (z3, all symbols are unbounded integers):
  H   helper level - `check_in_bounds`, `check_bounds`, `check_pos_size`,
      `check_non_negative`, `check_call_shape_eqv` on abstract atoms:  no error
      recorded  ==>  0 <= loc_k < shape_k for EVERY dimension k / size > 0 /
      expr >= 0 / all dimensions equal, under the assumptions in force (and the
      effect's predicate); a negative answer records an error.
  D   `expr_to_smt` on `/` and `%`: the constraint it asserts about the fresh
      temporary holds for exactly one value, the floor quotient (divisor read as
      an arbitrary positive integer c via a sentinel literal, and again for the
      literals 1,2,3,4,7,8,64); the returned term is the quotient / remainder;
      a non-literal or non-positive divisor is refused.
      (Reading of the recorded questions: each accepted question is valid, i.e.
      closed under forall over every symbol.  The parameters of a family member
      stand for arbitrary closed expressions - they are rigid; for one conclusion
      at a time the symbols it mentions are shared (an instantiation of the
      closure), every other symbol - loop iterators, division temporaries, stride
      variables, formal parameters of callees - stays universally quantified and
      is eliminated with z3's Presburger `qe`.  A conclusion that would hold only
      because the accepted questions contradict its guard is reported as
      undecided, never as discharged.)
  P   whole pass on a family of small procedures (one shape per statement kind
      and window form; all sizes, offsets, interval ends and indices are
      symbolic parameters).  The *reference* reading (bounds_ghost.Spec, written
      from the property text) lists the conditions the property demands:
        every read / write / reduce stays inside the declared extent of the
        buffer or window it names, and - through any chain of windows, window
        arguments and callees - lands inside the source buffer (point dims
        contribute the point, interval dims lo + index, consumed in order);
        a window that is accessed or passed to a call lies inside the buffer it
        is (transitively) taken from; loop: hi - lo >= 0 under the
        context *without* the iterator's range; alloc: extents > 0; call: size
        arguments > 0, argument extents > 0, shapes equal, every callee
        assertion after substitution - under the caller's context only.
      Obligation per condition:  (every question asked was valid)  ==>  condition.
  Q   protocol: a negative answer to any single question makes
      CheckBounds.__init__ raise TypeError.
A refuted P obligation is turned into a witness: parameter values from the
model give a closed Exo procedure; it is a confirmed failing input when the
real, unstubbed @proc pipeline accepts it although the reference reading finds
the violated condition falsifiable.
"""
from __future__ import annotations
import os, sys, time, traceback
from collections import ChainMap
import z3
from contracts.bounds_ghost import (FakeSolver, Program, Spec, Unsupported, accepted_by_front_end, check_unsat,
                                    hypotheses, close_over, load_procs, run_checkbounds, smt2z3, zsym, z3_names)

FN = "src/exo/frontend/boundscheck.py"
T_HELP = FN + "::CheckBounds.check_* [formula]"
T_DIV = FN + "::CheckBounds.expr_to_smt [div/mod lowering]"
T_PASS = FN + "::CheckBounds.map_stmts+eff_e+translate_eff [whole pass]"
T_PROTO = FN + "::CheckBounds.__init__ [protocol]"

K_ALIAS = ("[family] every read / write / reduce through a window created by a window statement stays inside that "
           "window's own declared extent")

ASSUMED = [
    "C03: the PySMT solver is sound: is_valid(phi) returns True only if phi follows from the assertions on its "
    "stack for all values of all symbols (PySMT + z3 are trusted)",
    "C03: stride facts asserted by assume_tensor_strides / preprocess_stmts are true of the run-time layout "
    "(they only mention stride variables; used to pick the values of those variables)",
    "C03: the effect algebra (eff_concat, eff_bind, eff_filter, eff_subst, config substitution) is exercised on "
    "the statement shapes of the program family only; configuration-dependent indices are not covered",
    "C03: the family instantiates block length <= 3, loop depth <= 2, window chains <= 2, call depth <= 2 and rank <= 3; "
    "all integers (sizes, offsets, interval ends, indices, loop bounds) are symbolic and unbounded",
]


# ----------------------------------------------------------------------------
# the program family

def _P(name, params, text, what=""):
    return Program(name, [tuple(p.split(":")) for p in params.split()] if params else [], text, what)


CALLEES = '''
@proc
def put(n: size, i: index, x: f32[n]):
    assert 0 <= i
    assert i < n
    x[i] = 1.0

@proc
def alloc_m(m: size, o: f32[1]):
    t: f32[m]
    t[0] = 1.0
    o[0] = t[0]

@proc
def put_last4(w: [f32][4]):
    w[3] = 1.0

@proc
def acc_last4(w: [f32][4]):
    w[3] += 1.0

@proc
def get_last4(w: [f32][4], o: f32[1]):
    o[0] = w[3]

@proc
def fill(n: size, w: [f32][n]):
    for j in seq(0, n):
        w[j] = 0.0

@proc
def fill_mult4(n: size, w: [f32][n]):
    assert n % 4 == 0
    for j in seq(0, n / 4):
        w[4 * j + 3] = 0.0

@proc
def fill_sub(n: size, w: [f32][n + 1]):
    v = w[1:n + 1]
    fill(n, v)

@proc
def row(n: size, m: size, i: index, a: f32[n, m]):
    assert 0 <= i
    assert i < n
    for j in seq(0, m):
        a[i, j] = 0.0
'''

FAMILY = [
    _P("direct_1d", "n:size m:size a:index b:index", '''
@proc
def main({P}x: f32[{n}], y: f32[{m}]):
    x[{a}] = y[{b}]
    x[{b}] += y[{a}]
'''),
    _P("direct_2d", "n:size m:size a:index b:index", '''
@proc
def main({P}x: f32[{n}, {m}], y: f32[{m}, {n}]):
    x[{a}, {b}] = y[{b}, {a}]
    x[{b}, {a}] += 1.0
'''),
    _P("alias_write", "n:size a:index b:index c:index", '''
@proc
def main({P}x: f32[{n}]):
    w = x[{a}:{b}]
    w[{c}] = 1.0
'''),
    _P("alias_reduce", "n:size a:index b:index c:index", '''
@proc
def main({P}x: f32[{n}]):
    w = x[{a}:{b}]
    w[{c}] += 1.0
'''),
    _P("alias_read", "n:size a:index b:index c:index d:index", '''
@proc
def main({P}x: f32[{n}], o: f32[1]):
    w = x[{a}:{b}]
    o[0] = w[{c}] + (-w[{d}])
'''),
    _P("alias_alloc", "n:size a:index b:index c:index", '''
@proc
def main({P}o: f32[1]):
    x: f32[{n}]
    w = x[{a}:{b}]
    w[{c}] = 1.0
    o[0] = w[{c}]
'''),
    _P("alias_2d_point_first", "n:size m:size p:index a:index b:index c:index", '''
@proc
def main({P}x: f32[{n}, {m}], o: f32[1]):
    w = x[{p}, {a}:{b}]
    w[{c}] = 1.0
    w[{c}] += 1.0
    o[0] = w[{c}]
'''),
    _P("alias_2d_point_last", "n:size m:size p:index a:index b:index c:index", '''
@proc
def main({P}x: f32[{n}, {m}], o: f32[1]):
    w = x[{a}:{b}, {p}]
    w[{c}] = 1.0
    w[{c}] += 1.0
    o[0] = w[{c}]
'''),
    _P("alias_3d_mixed", "n:size m:size k:size p:index a:index b:index c:index d:index i:index j:index", '''
@proc
def main({P}x: f32[{n}, {m}, {k}], o: f32[1]):
    w = x[{a}:{b}, {p}, {c}:{d}]
    w[{i}, {j}] = 1.0
    w[{j}, {i}] += 1.0
    o[0] = w[{i}, {j}]
'''),
    _P("window_of_window", "n:size a:index b:index c:index d:index e:index", '''
@proc
def main({P}x: f32[{n}], o: f32[1]):
    w = x[{a}:{b}]
    v = w[{c}:{d}]
    v[{e}] = 1.0
    v[{e}] += 1.0
    o[0] = v[{e}]
'''),
    _P("window_of_window_2d", "n:size m:size a:index b:index c:index d:index p:index e:index", '''
@proc
def main({P}x: f32[{n}, {m}], o: f32[1]):
    w = x[{a}:{b}, {c}:{d}]
    v = w[{p}, 1:{d} - {c}]
    v[{e}] = 1.0
    o[0] = v[{e}]
'''),
    _P("window_argument", "n:size a:index", '''
@proc
def main({P}w: [f32][{n}], o: f32[1]):
    w[{a}] = 1.0
    w[{a}] += 1.0
    o[0] = w[{a}]
'''),
    _P("loop", "n:size lo:index hi:index a:index", '''
@proc
def main({P}x: f32[{n}], y: f32[{n}]):
    for i in seq({lo}, {hi}):
        x[i] = y[i + {a}]
'''),
    _P("loop_nested_alias", "n:size m:size a:index", '''
@proc
def main({P}x: f32[{n}, {m}]):
    for i in seq(0, {n}):
        w = x[i, {a}:{m}]
        for j in seq(0, {m} - {a}):
            w[j] = 0.0
            w[j + {a}] += 1.0
'''),
    _P("loop_bounds_use_iter", "n:size", '''
@proc
def main({P}x: f32[{n}, {n}]):
    for i in seq(0, {n}):
        for j in seq(i, {n}):
            x[i, j] = 0.0
        for j in seq(0, i):
            x[j, i] = 0.0
'''),
    _P("if_else", "n:size a:index", '''
@proc
def main({P}x: f32[{n}]):
    if {a} < {n}:
        x[{a}] = 1.0
    else:
        x[{a} - {n}] = 2.0
'''),
    _P("if_else_conjunction", "n:size a:index b:index", '''
@proc
def main({P}x: f32[{n}]):
    if {a} < {n} and {b} < {n}:
        x[{a}] = 1.0
        x[{b}] += 1.0
    else:
        if {a} >= {n}:
            x[{a} - {n}] = 2.0
'''),
    _P("if_else_disjunction", "n:size a:index b:index", '''
@proc
def main({P}x: f32[{n}]):
    if {a} >= {n} or {b} >= {n}:
        x[0] = 1.0
    else:
        x[{a}] = 2.0
        x[{b}] += 2.0
'''),
    _P("alloc", "n:size a:index b:index", '''
@proc
def main({P}o: f32[1]):
    t: f32[{n} - {a}]
    t[{b}] = 1.0
    t[{b} + 1] += 1.0
    o[0] = t[{b} - 1]
'''),
    _P("alloc_in_loop", "n:size a:index", '''
@proc
def main({P}o: f32[1]):
    for i in seq(0, {n}):
        t: f32[i + {a}, 2]
        t[i, 1] = 1.0
        w = t[0:i + 1, 1]
        w[i] += 1.0
'''),
    _P("divmod", "n:size a:index", '''
@proc
def main({P}x: f32[{n}], y: f32[4]):
    assert {a} >= 0
    x[{a} / 4] = y[{a} % 4]
    x[({a} - 8) / 4] += y[({a} - 8) % 4]
'''),
    _P("call_size_index", "m:size k:size a:index", CALLEES + '''
@proc
def main({P}y: f32[{k}]):
    put({m}, {a}, y)
'''),
    _P("call_size_expr", "k:size a:index b:index", CALLEES + '''
@proc
def main({P}y: f32[{k}]):
    put({k} - {b}, {a}, y[{b}:{k}])
'''),
    _P("call_size_minus_literal", "k:size", CALLEES + '''
@proc
def main({P}o: f32[1]):
    alloc_m({k} - 1, o)
'''),
    _P("call_window_expr", "k:size a:index b:index", CALLEES + '''
@proc
def main({P}y: f32[{k}]):
    put_last4(y[{a}:{b}])
'''),
    _P("call_window_expr_reduce_read", "k:size a:index b:index", CALLEES + '''
@proc
def main({P}y: f32[{k}], o: f32[1]):
    acc_last4(y[{a}:{b}])
    get_last4(y[{a}:{b}], o)
'''),
    _P("call_alias_by_name", "k:size a:index b:index", CALLEES + '''
@proc
def main({P}y: f32[{k}], o: f32[1]):
    w = y[{a}:{b}]
    put_last4(w)
    acc_last4(w)
    get_last4(w, o)
'''),
    _P("call_alias_of_alias_by_name", "k:size a:index b:index c:index d:index", CALLEES + '''
@proc
def main({P}y: f32[{k}]):
    w = y[{a}:{b}]
    v = w[{c}:{d}]
    put_last4(v)
'''),
    _P("call_window_of_alias", "k:size a:index b:index c:index d:index", CALLEES + '''
@proc
def main({P}y: f32[{k}]):
    w = y[{a}:{b}]
    put_last4(w[{c}:{d}])
'''),
    _P("call_in_loop_2d", "n:size m:size a:index b:index", CALLEES + '''
@proc
def main({P}x: f32[{n}, {m}]):
    for i in seq(0, {n}):
        fill({b} - {a}, x[i, {a}:{b}])
'''),
    _P("call_pred_mod", "k:size a:index", CALLEES + '''
@proc
def main({P}y: f32[{k}]):
    fill_mult4({k} - {a}, y[{a}:{k}])
'''),
    _P("call_nested", "k:size a:index", CALLEES + '''
@proc
def main({P}y: f32[{k}]):
    fill_sub({k} - {a}, y[{a} - 1:{k}])
'''),
    _P("call_dense_2d", "n:size m:size k:size l:size a:index", CALLEES + '''
@proc
def main({P}x: f32[{k}, {l}]):
    row({n}, {m}, {a}, x)
'''),
    _P("call_under_guard", "k:size a:index b:index", CALLEES + '''
@proc
def main({P}y: f32[{k}]):
    if {b} - {a} == 4:
        if 0 <= {a}:
            put_last4(y[{a}:{b}])
'''),
]
FAMILY_BY_NAME = {p.name: p for p in FAMILY}


# ----------------------------------------------------------------------------
# helper-level obligations (H) and div/mod lowering (D)

def _bare_cb(answers=None):
    import exo.frontend.boundscheck as BC
    cb = BC.CheckBounds.__new__(BC.CheckBounds)
    cb.env, cb.config_env, cb.errors, cb.stride_sym = ChainMap(), ChainMap(), [], {}
    cb.solver = FakeSolver(answers)
    cb.orig_proc = None
    return cb


def _evE(e):
    """reference value of an Effects.expr over the atoms"""
    from exo.frontend.boundscheck import E
    from exo.core.LoopIR import T
    if isinstance(e, E.Var):
        return zsym(e.name, e.type == T.bool)
    if isinstance(e, E.Const):
        return z3.BoolVal(e.val) if isinstance(e.val, bool) else z3.IntVal(e.val)
    if isinstance(e, E.Not):
        return z3.Not(_evE(e.arg))
    if isinstance(e, E.BinOp):
        a, b, op = _evE(e.lhs), _evE(e.rhs), str(e.op)
        return {"+": lambda: a + b, "-": lambda: a - b, "*": lambda: a * b, "/": lambda: a / b, "%": lambda: a % b,
                "<": lambda: a < b, "<=": lambda: a <= b, ">": lambda: a > b, ">=": lambda: a >= b,
                "==": lambda: a == b, "and": lambda: z3.And(a, b), "or": lambda: z3.Or(a, b)}[op]()
    raise Unsupported(f"E.{type(e).__name__}")


def helper_cases():
    """yields (name, thunk) ; thunk(answers) -> (cb, conclusions[list of z3], context[list of z3])"""
    from exo.frontend.boundscheck import E, eff_null
    from exo.core.LoopIR import T
    from exo.core.prelude import Sym, SrcInfo
    src = SrcInfo("c03", 0)
    V = lambda s, t=T.index: E.Var(s, t, src)
    C = lambda v: E.Const(v, T.int, src)
    B = lambda op, a, b, t=T.index: E.BinOp(op, a, b, t, src)
    x, y = Sym("x"), Sym("y")

    def ctx_assert(cb, e):
        cb.solver.add_assertion(cb.expr_to_smt(e))
        return _evE(e)

    for rank in (1, 2, 3):
        for predk in ("none", "atom", "range"):
            for lock in ("atoms", "affine", "divmod"):
                if lock != "atoms" and predk != "none" and (rank > 1 or (lock, predk) == ("divmod", "range")):
                    continue

                def case(answers, rank=rank, predk=predk, lock=lock):
                    cb = _bare_cb(answers)
                    ls = [Sym(f"l{k}") for k in range(rank)]
                    ns = [Sym(f"n{k}") for k in range(rank)]
                    ctx = [ctx_assert(cb, B("<", C(0), V(n, T.size), T.bool)) for n in ns]
                    if lock == "atoms":
                        loc = [V(l) for l in ls]
                    elif lock == "affine":
                        loc = [B("+", B("*", C(2), V(l)), C(1)) for l in ls]
                    else:
                        loc = [B("%", B("/", V(l), C(4)), C(3)) for l in ls]
                    shape = [V(n, T.size) for n in ns]
                    i, p, lo, hi = Sym("i"), Sym("p"), Sym("lo"), Sym("hi")
                    if predk == "none":
                        pred, names = None, []
                    elif predk == "atom":
                        pred, names = V(p, T.bool), []
                    else:
                        pred = B("and", B("<=", V(lo), V(i), T.bool), B("<", V(i), V(hi), T.bool), T.bool)
                        loc[0] = B("+", loc[0], V(i))
                        names = [i]
                    es = E.effset(x, loc, names, pred, src)
                    cb.check_in_bounds(x, shape, es, "read")
                    g = _evE(pred) if pred is not None else z3.BoolVal(True)
                    concl = [z3.Implies(g, z3.And(0 <= _evE(l), _evE(l) < _evE(n))) for l, n in zip(loc, shape)]
                    return cb, concl, ctx
                yield f"check_in_bounds rank={rank} pred={predk} loc={lock}", case, \
                    [f"dimension {k}: 0 <= index < extent" for k in range(rank)]

    def other_buffer(answers):
        cb = _bare_cb(answers)
        es = E.effset(y, [V(Sym("l"))], [], None, src)
        cb.check_in_bounds(x, [V(Sym("n"), T.size)], es, "read")
        return cb, [], []
    yield "check_in_bounds other buffer (no question, no claim)", other_buffer, []

    def bounds_all_kinds(answers):
        cb = _bare_cb(answers)
        n = Sym("n")
        ctx = [ctx_assert(cb, B("<", C(0), V(n, T.size), T.bool))]
        r, w, d, o = Sym("r"), Sym("w"), Sym("d"), Sym("o")
        mk = lambda b, l: E.effset(b, [V(l)], [], None, src)
        eff = E.effect([mk(y, o), mk(x, r)], [mk(x, w), mk(y, o)], [mk(y, o), mk(x, d)], [], [], src)
        cb.check_bounds(x, [V(n, T.size)], eff)
        return cb, [z3.And(0 <= zsym(v), zsym(v) < zsym(n)) for v in (r, w, d)], ctx
    yield "check_bounds reads+writes+reduces", bounds_all_kinds, ["the read is in bounds", "the write is in bounds",
                                                                  "the reduce is in bounds"]

    def pos_size(answers):
        cb = _bare_cb(answers)
        n, a = Sym("n"), Sym("a")
        e = B("-", V(n, T.size), V(a))
        cb.check_pos_size(e)
        return cb, [_evE(e) > 0], []
    yield "check_pos_size", pos_size, ["size > 0"]

    def non_neg(answers):
        cb = _bare_cb(answers)
        e = B("-", V(Sym("hi")), V(Sym("lo")))
        cb.check_non_negative(e)
        return cb, [_evE(e) >= 0], []
    yield "check_non_negative", non_neg, ["hi - lo >= 0"]

    for rank in (1, 2, 3):
        def shape_eqv(answers, rank=rank):
            cb = _bare_cb(answers)
            a = [B("-", V(Sym(f"h{k}")), V(Sym(f"l{k}"))) for k in range(rank)]
            s = [V(Sym(f"n{k}"), T.size) for k in range(rank)]
            node = V(Sym("node"))
            cb.check_call_shape_eqv(a, s, node)
            return cb, [_evE(u) == _evE(v) for u, v in zip(a, s)], []
        yield f"check_call_shape_eqv rank={rank}", shape_eqv, [f"dimension {k}: argument extent == declared extent"
                                                               for k in range(rank)]


SENT = 1000003


def div_cases():
    for op in ("/", "%"):
        for lit in (SENT, 1, 2, 3, 4, 7, 8, 64):
            yield op, lit


def run_div(res, record, tmo):
    from exo.frontend.boundscheck import E
    from exo.core.LoopIR import T
    from exo.core.prelude import Sym, SrcInfo
    src = SrcInfo("c03", 0)
    l = Sym("l")
    lz = zsym(l)
    for op, lit in div_cases():
        cb = _bare_cb()
        c = z3.Int("c") if lit == SENT else z3.IntVal(lit)
        cm = {SENT: c} if lit == SENT else None
        how = "any positive literal c" if lit == SENT else f"literal {lit}"
        try:
            t = cb.expr_to_smt(E.BinOp(op, E.Var(l, T.index, src), E.Const(lit, T.int, src), T.index, src))
        except Exception as e:
            record(T_DIV, f"{op} by {how}: lowering runs", "refuted", what=f"expr_to_smt raised {type(e).__name__}")
            continue
        tz = smt2z3(t, cm)
        A = [smt2z3(f, cm) for f in cb.solver.asserted]
        tmps = [n for f in cb.solver.asserted for n in sorted({v.symbol_name() for v in f.get_free_variables()})
                if n.startswith(("div_tmp", "mod_tmp"))]
        if len(set(tmps)) != 1:
            record(T_DIV, f"{op} by {how}: exactly one fresh temporary is constrained", "refuted",
                   what=f"temporaries: {sorted(set(tmps))}")
            continue
        z = z3.Int(tmps[0])
        pre = [c > 0]
        q = lz / c
        want = q if op == "/" else lz % c
        # uniqueness: the constraint forces the temporary to be the floor quotient
        r, m, dt = check_unsat(pre + A + [z != q], tmo)
        uniq = r == z3.unsat
        record(T_DIV, f"{op} by {how}: the asserted constraint forces the temporary to be floor(l / c)", _st(r), dt,
               what=f"{op} lowering: constraint admits a value other than the floor quotient")
        # totality: the floor quotient satisfies it (so assuming it excludes no input)
        r, m, dt = check_unsat(pre + [z == q, z3.Not(z3.And(*A))], tmo)
        record(T_DIV, f"{op} by {how}: the floor quotient satisfies the asserted constraint (nothing is excluded)",
               _st(r), dt, what=f"{op} lowering: constraint excludes the floor quotient")
        # (uses the fact just proved, z == floor(l / c), as a lemma: non-linear when c is symbolic)
        r, m, dt = check_unsat(pre + A + ([z == q] if uniq else []) + [tz != want], tmo)
        record(T_DIV, f"{op} by {how}: the returned term is the floor {'quotient' if op == '/' else 'remainder'}",
               _st(r), dt, what=f"{op} lowering: returned term differs from the floor result")
    # refused divisors
    for op in ("/", "%"):
        for name, rhs in (("zero", E.Const(0, T.int, src)), ("negative literal", E.Const(-2, T.int, src)),
                          ("variable", E.Var(Sym("d"), T.index, src))):
            cb = _bare_cb()
            try:
                cb.expr_to_smt(E.BinOp(op, E.Var(l, T.index, src), rhs, T.index, src))
                ok = False
            except AssertionError:
                ok = True
            except Exception:
                ok = True
            record(T_DIV, f"{op} by a {name} is refused (no formula is produced)", "discharged" if ok else "refuted",
                   what=f"{op} by a {name} lowered silently")


def _st(r):
    return "discharged" if r == z3.unsat else ("refuted" if r == z3.sat else "unknown")


def run_helpers(res, record, tmo):
    for name, case, concl_names in helper_cases():
        try:
            cb, concl, ctx = case(None)
        except Exception as e:
            record(T_HELP, f"{name}: runs", "refuted", what="".join(traceback.format_exception(e))[-400:])
            continue
        ok_noerr = len(cb.errors) == 0 and not cb.solver.protocol_errors and len(cb.solver.frames) == 1
        record(T_HELP, f"{name}: positive answers record no error and leave the assertion stack balanced",
               "discharged" if ok_noerr else "refuted", what=f"{name}: error recorded / stack unbalanced on positive answers")
        raw, cache = hypotheses(cb.solver), {}
        # every atom is rigid (it stands for an arbitrary closed expression); only the
        # effect's bound names, division temporaries and stride variables are closed over
        allv = set()
        for t in list(ctx) + list(concl):
            z3_names(t, allv)
        voc0 = {n for n in allv if not n.startswith("i_")}
        r0, _, _ = check_unsat(close_over(raw, allv, cache) + ctx, tmo)
        if r0 != z3.sat:
            res["undecided"].append(f"{T_HELP}: {name}: canary failed ({r0})")
            continue
        for cn, cz in zip(concl_names, concl):
            r, m, dt = check_unsat(close_over(raw, z3_names(cz, set(voc0)), cache) + ctx + [z3.Not(cz)], tmo)
            record(T_HELP, f"{name}: no error recorded ==> {cn}", _st(r), dt,
                   what=f"{name}: the recorded formula does not imply '{cn}'", witness=_helper_witness(name))
        nq = len(cb.solver.valid_queries())
        if concl and nq == 0:
            record(T_HELP, f"{name}: a question is asked", "refuted", what=f"{name}: no validity question asked",
                   witness=_helper_witness(name))
        for k in range(nq):
            cb2, _, _ = case(lambda kk, q, k=k: kk != k)
            record(T_HELP, f"{name}: a negative answer to question {k} records an error",
                   "discharged" if cb2.errors else "refuted", what=f"{name}: negative answer ignored",
                   witness=_helper_witness(name))
        if not concl:
            record(T_HELP, f"{name}: no question asked", "discharged" if nq == 0 else "refuted", what=name)


def _helper_witness(name):
    """closed programs that exercise the helper through the public API: each must
    be REJECTED by the real front end (they are unsafe)."""
    if name.startswith("check_in_bounds") or name.startswith("check_bounds"):
        return ["oob_upper_1d", "oob_lower_1d", "oob_second_dim", "oob_third_dim", "oob_reduce", "oob_read",
                "oob_guarded", "oob_in_loop"]
    if name.startswith("check_pos_size"):
        return ["alloc_zero", "call_size_zero"]
    if name.startswith("check_non_negative"):
        return ["loop_negative"]
    if name.startswith("check_call_shape_eqv"):
        return ["shape_mismatch_1d", "shape_mismatch_second_dim"]
    return []


# unsafe closed procedures: the real front end must reject every one of them
REJECT_SRC = {
    "oob_upper_1d": '''
@proc
def main(x: f32[8]):
    x[8] = 1.0
''',
    "oob_lower_1d": '''
@proc
def main(x: f32[8]):
    x[0 - 1] = 1.0
''',
    "oob_second_dim": '''
@proc
def main(x: f32[8, 4]):
    x[3, 4] = 1.0
''',
    "oob_third_dim": '''
@proc
def main(x: f32[8, 4, 2]):
    x[3, 3, 2] = 1.0
''',
    "oob_reduce": '''
@proc
def main(x: f32[8]):
    x[9] += 1.0
''',
    "oob_read": '''
@proc
def main(x: f32[8], o: f32[1]):
    o[0] = x[9]
''',
    "oob_guarded": '''
@proc
def main(n: size, x: f32[n]):
    if n > 4:
        x[n] = 1.0
''',
    "oob_in_loop": '''
@proc
def main(n: size, x: f32[n]):
    for i in seq(0, n):
        x[i + 1] = 1.0
''',
    "oob_lower_in_loop": '''
@proc
def main(n: size, x: f32[n]):
    for i in seq(0, n):
        x[i - 1] = 1.0
''',
    "alloc_zero": '''
@proc
def main(n: size, o: f32[1]):
    t: f32[n - 1]
    o[0] = 1.0
''',
    "call_size_zero": CALLEES + '''
@proc
def main(n: size, y: f32[n]):
    fill(n - 1, y[1:n])
''',
    "loop_negative": '''
@proc
def main(n: size, x: f32[n]):
    for i in seq(2, n):
        x[i] = 1.0
''',
    "shape_mismatch_1d": CALLEES + '''
@proc
def main(y: f32[8]):
    put_last4(y[0:5])
''',
    "shape_mismatch_second_dim": CALLEES + '''
@proc
def main(x: f32[8, 5]):
    row(8, 4, 0, x)
''',
    "callee_assertion": CALLEES + '''
@proc
def main(y: f32[8]):
    put(8, 8, y)
''',
    "callee_assertion_mod": CALLEES + '''
@proc
def main(y: f32[8]):
    fill_mult4(6, y[0:6])
''',
    "alias_write_oob": '''
@proc
def main(y: f32[8]):
    x: f32[8]
    w = x[0:4]
    w[9] = 1.0
''',
    "alias_reduce_oob": '''
@proc
def main(x: f32[8]):
    w = x[4:8]
    w[4] += 1.0
''',
    "alias_read_oob": '''
@proc
def main(x: f32[8], o: f32[1]):
    w = x[4:8]
    o[0] = w[4]
''',
    "alias_point_dim_oob": '''
@proc
def main(x: f32[8, 8]):
    w = x[9, 0:4]
    w[0] = 1.0
''',
    "alias_second_interval_oob": '''
@proc
def main(x: f32[8, 2, 8], o: f32[1]):
    w = x[0:8, 1, 4:8]
    o[0] = w[0, 4]
''',
    "window_of_window_oob": '''
@proc
def main(x: f32[8], o: f32[1]):
    w = x[2:8]
    v = w[2:6]
    o[0] = v[4]
''',
    "window_exceeds_source": '''
@proc
def main(y: f32[8]):
    w = y[4:12]
    w[0] = 1.0
''',
    "window_negative_start": '''
@proc
def main(y: f32[8]):
    w = y[0 - 2:4]
    w[2] = 1.0
''',
    "callee_through_alias_by_name": CALLEES + '''
@proc
def main(y: f32[8]):
    w = y[6:10]
    put_last4(w)
''',
    "callee_through_window_expr": CALLEES + '''
@proc
def main(y: f32[8]):
    put_last4(y[6:10])
''',
    "callee_reduce_through_window_expr": CALLEES + '''
@proc
def main(y: f32[8]):
    acc_last4(y[6:10])
''',
}


def run_rejects():
    out = {}
    for k, src in REJECT_SRC.items():
        ok, msg = accepted_by_front_end("from __future__ import annotations\nfrom exo import proc\n" + src)
        out[k] = (not ok, msg)
    return out


# ----------------------------------------------------------------------------
# whole pass (P), protocol (Q)

def analyse_program(prog, tmo, values=None):
    """-> dict(items=[(label, status, dt, model)], nq, canary, protocol)"""
    mod = load_procs(prog.source(values), checks=False)
    ir = mod.main._loopir_proc
    spec = Spec(ir)
    slv, cb, exc = run_checkbounds(ir)
    out = dict(spec=spec, slv=slv, exc=exc, ir=ir, items=[], protocol_ok=None)
    if exc is not None:
        out["error"] = f"CheckBounds raised on all-positive answers: {exc}"
        return out
    raw, cache = hypotheses(slv), {}
    # the parameters of `main` are rigid: they stand for arbitrary closed expressions of
    # a family of procedures; bound iterators, temporaries, strides and callee formals
    # are closed over unless the conclusion at hand mentions them
    voc0 = {repr(a.name) for a in ir.args if not a.type.is_numeric()}
    for t in spec.assume:
        z3_names(t, voc0)
    allv = set(voc0)
    for it in spec.items:
        z3_names(it.guard, allv)
        z3_names(it.cond, allv)
    r0, _, _ = check_unsat(close_over(raw, allv, cache) + list(spec.assume), tmo)
    out["canary"] = r0
    seen = {}
    out["bases"] = {}
    for it in spec.items:
        seen[it.label] = seen.get(it.label, 0) + 1
        label = it.label if seen[it.label] == 1 else f"{it.label} [#{seen[it.label]}]"
        voc = z3_names(it.cond, z3_names(it.guard, set(voc0)))
        base = close_over(raw, voc, cache) + list(spec.assume)
        r, m, dt = check_unsat(base + [it.guard, z3.Not(it.cond)], tmo)
        st = _st(r)
        if st == "discharged":
            # not vacuously: the accepted questions and the guard must be satisfiable together
            rc, _, dtc = check_unsat(base + [it.guard], tmo)
            dt += dtc
            if rc != z3.sat:
                st = "vacuous"
        out["items"].append((label, it, st, dt, m))
        out["bases"][label] = base
    return out


def protocol(prog, nq):
    """a negative answer to any single question must make __init__ raise"""
    mod = load_procs(prog.source(None), checks=False)
    ir = mod.main._loopir_proc
    bad = []
    for k in range(nq):
        slv, cb, exc = run_checkbounds(ir, lambda kk, q, k=k: kk != k)
        if exc is None:
            bad.append(k)
    return bad


def find_witness(prog, it_label, an, limit=10):
    """parameter values (from models of hypotheses & not condition) for which the
    closed program is accepted by the real front end although the reference
    reading finds the same condition falsifiable.  -> (values, text) or (None, text)"""
    item = next((it for (lab, it, st, dt, m) in an["items"] if lab == it_label), None)
    if item is None:
        return None, "no such condition"
    params = [p for p, _ in prog.params]
    kinds = dict(prog.params)
    pz = {}
    ir = an["ir"]
    for a in ir.args:
        if str(a.name) in kinds:
            pz[str(a.name)] = zsym(a.name)
    s = z3.Solver()
    s.set("timeout", 10000)
    for c in an["bases"][it_label] + [item.guard, z3.Not(item.cond)]:
        s.add(c)
    for p, v in pz.items():
        s.add(v >= (1 if kinds[p] == "size" else -6), v <= 24)
    log = []
    for _ in range(limit):
        if s.check() != z3.sat:
            break
        m = s.model()
        vals = {p: m.eval(v, model_completion=True).as_long() for p, v in pz.items()}
        s.add(z3.Or(*[v != vals[p] for p, v in pz.items()]))
        src = prog.source(vals)
        ok, msg = accepted_by_front_end(src)
        if not ok:
            log.append(f"{vals}: rejected ({msg[:80]})")
            continue
        try:
            an2 = analyse_closed(prog, vals, it_label)
        except Exception as e:
            log.append(f"{vals}: reference reading failed: {e}")
            continue
        if an2:
            return vals, src
        log.append(f"{vals}: accepted, but the condition holds on the closed program")
    return None, "\n".join(log[-6:])


def analyse_closed(prog, vals, it_label):
    """True iff, on the closed program, the reference reading finds the condition falsifiable"""
    mod = load_procs(prog.source(vals), checks=False)
    spec = Spec(mod.main._loopir_proc)
    seen = {}
    for it in spec.items:
        seen[it.label] = seen.get(it.label, 0) + 1
        label = it.label if seen[it.label] == 1 else f"{it.label} [#{seen[it.label]}]"
        if label == it_label:
            r, _, _ = check_unsat(list(spec.assume) + [it.guard, z3.Not(it.cond)], 10000)
            if r == z3.sat:
                return True
    return False


REPLAY = '''#!/venv/bin/python
"""Replay for C03 / CheckBounds: {what}
exit 1 = the real front end accepts an unsafe procedure / violates the obligation."""
import sys
sys.path.insert(0, {verif!r})
from pyvc.run import ensure_repo_on_path
ensure_repo_on_path()
from contracts.c03_formula import replay
sys.exit(replay({kind!r}, {arg!r}))
'''


def replay(kind, arg):
    """kind 'program': arg = (program name, condition label); kind 'reject': arg = [names of unsafe closed procedures];
    kind 'engine': re-run everything."""
    if kind == "program":
        pname, label = arg
        prog = FAMILY_BY_NAME[pname]
        print(f"procedure family member: {pname}")
        print(prog.source(None))
        an = analyse_program(prog, 10000)
        st = next((s for (lab, it, s, dt, m) in an["items"] if lab == label), None)
        print(f"condition : {label}")
        print(f"solver    : (all questions valid) ==> condition is {st}")
        if st != "refuted":
            print("verdict   : not-reproduced")
            return 0
        vals, text = find_witness(prog, label, an)
        if vals is None:
            print("no closed instance was accepted by the real front end:")
            print(text)
            print("verdict   : formula obligation refuted, no failing input found")
            return 1
        print(f"closed instance {vals} is ACCEPTED by the real @proc pipeline although the condition fails:")
        print(text)
        print("verdict   : confirmed")
        return 1
    if kind == "reject":
        rej = run_rejects()
        bad = [k for k in arg if not rej[k][0]]
        for k in arg:
            print(f"unsafe procedure {k}: {'rejected' if rej[k][0] else 'ACCEPTED by the real @proc pipeline'}")
        if bad:
            print(REJECT_SRC[bad[0]])
        print("verdict   :", "confirmed" if bad else "not-reproduced")
        return 1 if bad else 0
    res = run()
    bad = [k for k, v in res["clauses"].items() if v == "refuted"]
    for k in bad:
        print("refuted:", k)
    return 1 if bad else 0


def run(tier="quick", seed=0):
    tmo = 60000 if tier == "thorough" else 10000
    verif = os.path.dirname(os.path.dirname(os.path.abspath(__file__)))
    res = dict(obligations=0, discharged=0, functions=[T_HELP, T_DIV, T_PASS, T_PROTO], samples=[], violations=[],
               undecided=[], bounded=[], clauses={}, solver_time_s=0.0, assumptions=list(ASSUMED))
    try:
        rejects = run_rejects()
    except Exception as e:
        rejects = {}
        res["undecided"].append(f"{T_PASS}: witness procedures could not be run: {type(e).__name__}: {e}")

    def record(tgt, name, status, dt=0.0, what=None, witness=None, replay_args=None, confirmed=None):
        key = f"{tgt} :: {name}"
        res["obligations"] += 1
        res["solver_time_s"] += dt
        if res["clauses"].get(key) == "refuted":
            return
        res["clauses"][key] = status
        if status == "discharged":
            res["discharged"] += 1
            if dt and len(res["samples"]) < 3:
                res["samples"].append(f"{key}: unsat in {dt:.3f}s")
        elif status == "refuted":
            if replay_args is None:
                names = [w for w in (witness or []) if w in rejects]
                conf = any(not rejects[w][0] for w in names)
                replay_args = ("reject", names) if names else ("engine", None)
            else:
                conf = bool(confirmed)
            res["violations"].append(dict(obligation=key, confirmed=conf,
                                          replay_script=REPLAY.format(verif=verif, what=what or name,
                                                                      kind=replay_args[0], arg=replay_args[1])))
        else:
            res["undecided"].append(f"{key}: {what or 'solver returned unknown'}")

    try:
        run_helpers(res, record, tmo)
    except Exception as e:
        res["undecided"].append(f"{T_HELP}: engine crashed: " + "".join(traceback.format_exception(e))[-800:])
    try:
        run_div(res, record, tmo)
    except Exception as e:
        res["undecided"].append(f"{T_DIV}: engine crashed: " + "".join(traceback.format_exception(e))[-800:])

    alias_items = []
    budget = dict(prog={}, all=0)
    for prog in FAMILY:
        try:
            an = analyse_program(prog, tmo)
        except Unsupported as u:
            res["undecided"].append(f"{T_PASS}: [{prog.name}] unsupported: {u}")
            continue
        except Exception as e:
            res["undecided"].append(f"{T_PASS}: [{prog.name}] crashed: " + "".join(traceback.format_exception(e))[-800:])
            continue
        if "error" in an:
            record(T_PASS, f"[{prog.name}] positive answers to every question: the procedure is accepted", "refuted",
                   what=an["error"][:200])
            continue
        if an["canary"] != z3.sat:
            res["undecided"].append(f"{T_PASS}: [{prog.name}] canary failed: recorded hypotheses are {an['canary']}")
            continue
        for (label, it, st, dt, m) in an["items"]:
            if it.kind.endswith("-declared-extent-alias"):
                # aggregated into one obligation (K_ALIAS), see below
                alias_items.append((prog, label, st, dt, an))
                continue
            if st == "refuted":
                # closed witnesses through the real front end are costly: at most two searches
                # per family member and sixteen per run (the replay script searches again)
                vals = None
                if budget["prog"].get(prog.name, 0) < 2 and budget["all"] < 16:
                    budget["prog"][prog.name] = budget["prog"].get(prog.name, 0) + 1
                    budget["all"] += 1
                    vals, text = find_witness(prog, label, an, limit=6)
                record(T_PASS, f"[{prog.name}] {label}", st, dt, what=f"[{prog.name}] {label}",
                       replay_args=("program", (prog.name, label)), confirmed=vals is not None)
            elif st == "vacuous":
                res["undecided"].append(f"{T_PASS}: [{prog.name}] {label}: holds only vacuously (the recorded questions "
                                        f"contradict the guard): the family member tests nothing here")
            else:
                record(T_PASS, f"[{prog.name}] {label}", st, dt, what=f"[{prog.name}] {label}")
        nq = len(an["slv"].valid_queries())
        try:
            bad = protocol(prog, nq)
            record(T_PROTO, f"[{prog.name}] a negative answer to any single question makes __init__ raise TypeError",
                   "discharged" if not bad else "refuted", what=f"[{prog.name}] negative answers {bad} ignored",
                   witness=list(REJECT_SRC))
        except Exception as e:
            res["undecided"].append(f"{T_PROTO}: [{prog.name}] crashed: {type(e).__name__}: {e}")

    # one obligation for "inside the window's own declared extent" (all family members)
    if alias_items:
        sts = [x[2] for x in alias_items]
        dt = sum(x[3] for x in alias_items)
        if all(x == "discharged" for x in sts):
            record(T_PASS, K_ALIAS, "discharged", dt)
        elif any(x == "refuted" for x in sts):
            conf, first = False, None
            for prog, label, st, _, an in alias_items:
                if st != "refuted":
                    continue
                first = first or (prog.name, label)
                vals, text = find_witness(prog, label, an, limit=4)
                if vals is not None:
                    conf, first = True, (prog.name, label)
                    break
            record(T_PASS, K_ALIAS, "refuted", dt, what=K_ALIAS + f" (first failing family member: {first[0]}: {first[1]})",
                   replay_args=("program", first), confirmed=conf)
        else:
            record(T_PASS, K_ALIAS, "unknown", dt)

    # sampled: unsafe closed procedures through the real, unstubbed pipeline
    for k, (rejected, msg) in rejects.items():
        key = f"{T_PASS} :: [witness] unsafe procedure {k} is rejected by the real front end"
        res["clauses"][key] = "bounded-pass" if rejected else "refuted"
        if not rejected:
            res["violations"].append(dict(obligation=key, confirmed=True,
                                          replay_script=REPLAY.format(verif=verif, what=f"unsafe procedure {k} accepted",
                                                                      kind="reject", arg=[k])))
    if rejects:
        res["bounded"].append(dict(target=FN + "::CheckBounds [unsafe closed procedures, real solver]", cases=len(rejects),
                                   bound="hand-written unsafe procedures (one per condition kind); sampled, not proof"))
    res["solver_time_s"] = round(res["solver_time_s"], 3)
    return res
