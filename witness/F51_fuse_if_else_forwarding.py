#!/venv/bin/python
"""C06 witness: fuse(if1, if2) where if1 has NO else branch and if2 has one.  DoFuseIf re-inserts the statements of
if2's else branch with `_replace(orelse1 + orelse2)` (a value copy) and then deletes if2, so cursors to those
statements - which are carried over (same objects, now in if1's else branch) - are forwarded to
InvalidCursorError "node no longer exists"; the statements of if2's then-branch (moved with `_move`) forward fine.
"""
from __future__ import annotations
from exo import proc
from exo.stdlib.scheduling import fuse
from exo.core.internal_cursors import InvalidCursorError


@proc
def foo(n: size, x: f32[8], y: f32[8]):
    if n < 3:
        x[0] = 1.0
    if n < 3:
        y[0] = 2.0
    else:
        y[1] = 3.0
        y[2] = 4.0


if1, if2 = foo.body()[0], foo.body()[1]
t0, e0 = if2.body()[0], if2.orelse()[0]
p2 = fuse(foo, if1, if2)
print(p2)
print("then-statement of the second if ->", type(p2.forward(t0)).__name__)
try:
    f = p2.forward(e0)
    print("else-statement of the second if ->", type(f).__name__)
    print("not reproduced")
except InvalidCursorError as e:
    print("else-statement of the second if -> InvalidCursorError:", e)
    print("(it is still there: ", str(p2.body()[0].orelse()[0]).strip().splitlines()[-3:], ")")
    print("DEFECT-CONFIRMED")
