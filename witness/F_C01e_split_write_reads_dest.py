"""C01 / split_write (DoSplitWrite): `a = e1 + e2` -> `a = e1; a += e2` is accepted when e2 reads `a`; e2 is then
evaluated after the first write.  Found by contracts/c01_exprs.py (split_write -> DoSplitWrite, final-store clause)."""
from __future__ import annotations
from exo import proc
from exo.API_scheduling import split_write
from _common import verdict, accepted
from _interp import run
@proc
def foo(x: f32, y: f32):
    x = y + x
out = []
ok, why = accepted(lambda: out.append(split_write(foo, foo.body()[0])))
if not ok:
    verdict("C01e-split_write", False, why)
a, b = run(foo, x=3, y=10), run(out[0], x=3, y=10)
print(out[0]); print("original:", a, " rewritten:", b)
verdict("C01e-split_write", a != b, f"x = y + x with x=3, y=10: original x={a['x']}, after split_write x={b['x']}")
