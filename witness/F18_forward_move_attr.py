from __future__ import annotations
from exo import proc
from exo.stdlib.scheduling import eliminate_dead_code
from exo.core.internal_cursors import InvalidCursorError
from _common import verdict
@proc
def foo(x: f32[8], n: size):
    assert n > 4
    for i in seq(0, 8):
        if n < 2:
            x[i] = 0.0
        else:
            x[i] = 1.0
            x[i] = 2.0
ifc = foo.find('if _: _')
blk = ifc.orelse()
p = eliminate_dead_code(foo, ifc)
try:
    got = [str(c._impl._node) for c in p.forward(blk)]
    verdict("F18", got != ['x[i] = 1.0', 'x[i] = 2.0'], f"forwarded block = {got}")
except InvalidCursorError:
    verdict("F18", False, "reported invalid")
except Exception as e:
    verdict("F18", True, f"dangling cursor: {type(e).__name__}: {e}")
