from __future__ import annotations
# C06: Block._forward_move (Block case).  A block cursor that shares exactly one
# END statement with the moved block is neither reported invalid nor forwarded:
# `_intersects_partially` uses strict inequalities, so ranges with a common
# endpoint slip through and the forwarding function dies on its own assert
# (or, when the moved block stays in the same list, returns a block that
# contains a foreign statement).
from exo import proc
from exo.stdlib.scheduling import lift_alloc
from exo.core.internal_cursors import InvalidCursorError
from _common import verdict
@proc
def foo(x: f32[8]):
    for i in seq(0, 8):
        t: f32
        t = 1.0
        x[i] = t
loop = foo.find_loop('i')
blk = loop.body()[0:2]          # [t: f32 ; t = 1.0]  -- starts with the statement that is moved
p = lift_alloc(foo, 't: _')
try:
    got = [str(c._impl._node) for c in p.forward(blk)]
    verdict("F_C06_move_endpoint", got != ['t = 1.0'], f"forwarded block = {got}")
except InvalidCursorError:
    verdict("F_C06_move_endpoint", False, "reported invalid")
except Exception as e:
    verdict("F_C06_move_endpoint", True, f"neither a cursor nor InvalidCursorError: {type(e).__name__}: {e}")
