"""Tiny reference interpreter for LoopIR procedures, used by the C01 witnesses to run the original and the
rewritten procedure on concrete numbers.  Numeric values are exact Fractions; buffers are dicts from index
tuples to values (a scalar is the entry ()).  Reading a location that was never written is reported as
`UNINIT` (it poisons every value computed from it)."""
from fractions import Fraction
from exo.core.LoopIR import LoopIR


class Uninit:
    def __repr__(self):
        return "UNINIT"
    def _p(self, *_):
        return self
    __add__ = __radd__ = __sub__ = __rsub__ = __mul__ = __rmul__ = __truediv__ = __rtruediv__ = __neg__ = _p
    def __eq__(self, o):
        return isinstance(o, Uninit)
    def __hash__(self):
        return 0


UNINIT = Uninit()


def _e(e, env):
    if isinstance(e, LoopIR.Const):
        return Fraction(e.val) if isinstance(e.val, float) else e.val
    if isinstance(e, LoopIR.Read):
        v = env[e.name]
        if isinstance(v, dict):
            return v.get(tuple(_e(i, env) for i in e.idx), UNINIT)
        return v
    if isinstance(e, LoopIR.USub):
        return -_e(e.arg, env)
    if isinstance(e, LoopIR.BinOp):
        a, b = _e(e.lhs, env), _e(e.rhs, env)
        numeric = e.type.is_numeric()
        return {"+": lambda: a + b, "-": lambda: a - b, "*": lambda: a * b,
                "/": lambda: (a / b) if numeric else a // b, "%": lambda: a % b,
                "<": lambda: a < b, "<=": lambda: a <= b, ">": lambda: a > b, ">=": lambda: a >= b,
                "==": lambda: a == b, "and": lambda: a and b, "or": lambda: a or b}[e.op]()
    raise NotImplementedError(type(e).__name__)


def _s(stmts, env):
    for s in stmts:
        if isinstance(s, LoopIR.Assign):
            env[s.name][tuple(_e(i, env) for i in s.idx)] = _e(s.rhs, env)
        elif isinstance(s, LoopIR.Reduce):
            k = tuple(_e(i, env) for i in s.idx)
            env[s.name][k] = env[s.name].get(k, UNINIT) + _e(s.rhs, env)
        elif isinstance(s, LoopIR.Alloc):
            env[s.name] = {}
        elif isinstance(s, (LoopIR.Pass, LoopIR.Free)):
            pass
        elif isinstance(s, LoopIR.If):
            _s(s.body if _e(s.cond, env) else s.orelse, env)
        elif isinstance(s, LoopIR.For):
            for v in range(_e(s.lo, env), _e(s.hi, env)):
                env[s.iter] = v
                _s(s.body, env)
        elif isinstance(s, LoopIR.Call):
            sub = {}
            for formal, actual in zip(s.f.args, s.args):
                sub[formal.name] = env[actual.name] if (isinstance(actual, LoopIR.Read) and not actual.idx
                                                        and isinstance(env[actual.name], dict)) else _e(actual, env)
            _s(s.f.body, sub)
        else:
            raise NotImplementedError(type(s).__name__)


def run(procedure, **inputs):
    """run an exo Procedure; numeric arguments are given as a number (scalar) or a list (1-d buffer), index/size
    arguments as ints.  Returns {argument name: final contents} for the numeric arguments."""
    p = procedure._loopir_proc
    env, out = {}, {}
    for a in p.args:
        v = inputs[str(a.name)]
        if a.type.is_numeric():
            if isinstance(v, (list, tuple)):
                env[a.name] = {(k,): Fraction(x) for k, x in enumerate(v)}
            else:
                env[a.name] = {(): Fraction(v)}
            out[str(a.name)] = env[a.name]
        else:
            env[a.name] = v
    for pr in p.preds:
        assert _e(pr, env), f"input violates the assertion {pr}"
    _s(p.body, env)
    return {k: ([v[(i,)] for i in range(len(v))] if () not in v else v[()]) for k, v in out.items()}
