"""C04: extract_env ignores window statements: extract_subproc leaves a window alias free in the new procedure,
stage_mem of a window alias dies with an AssertionError."""
from __future__ import annotations
import sys
from exo import proc
from exo.stdlib.scheduling import extract_subproc, stage_mem
from _scopes_common import run


@proc
def foo(n: size, m: size, x: f32[n, m], y: f32[n]):
    assert m > 8
    for i in seq(0, n):
        w = x[i, 0:m]
        for j in seq(0, 3):
            y[i] += w[j]


rc = 0
rc |= run("F_C04s_window_env", "extract_subproc of a block reading through a window", lambda: extract_subproc(foo, foo.find_loop("j"), "sub"))
rc |= run("F_C04s_window_env", "stage_mem of a window", lambda: stage_mem(foo, foo.find_loop("j"), "w[0:3]", "ws"))
sys.exit(rc)
