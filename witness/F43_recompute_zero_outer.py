from __future__ import annotations
from exo import proc
from exo.stdlib.scheduling import divide_with_recompute
from _common import verdict, accepted
@proc
def foo(n: size, x: f32[n]):
    for i in seq(0, n):
        x[i] = 1.0
ok, why = accepted(lambda: divide_with_recompute(foo, foo.find_loop('i'), "n/4", 4, ["io", "ii"]))
verdict("F43", ok, "outer extent n/4 may be 0 (n < 4): the divided nest then runs nothing" if ok else why)
