from __future__ import annotations
from exo import proc
from exo.stdlib.scheduling import fuse
from _common import verdict, accepted
@proc
def bar(n: size, x: f32[n], y: f32[n]):
    assert n > 2
    for i in seq(0, n):
        x[i] = 1.0
    for j in seq(2, n):
        y[j] = 2.0
ok, why = accepted(lambda: fuse(bar, bar.find_loop('i'), bar.find_loop('j')))
verdict("F13", ok, "loops over [0,n) and [2,n) fused" if ok else why)
