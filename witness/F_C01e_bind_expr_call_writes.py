"""C01 / bind_expr (DoBindExpr): only assignments / reductions between the occurrences are searched for writes to
what the expression reads; a call that writes it is ignored: `y = x*2; setx(x); z = x*2` -> `b = x*2; y = b; setx(x);
z = b`.  Found by contracts/c01_exprs.py (bind_expr -> DoBindExpr, final-store clause)."""
from __future__ import annotations
from exo import proc
from exo.API_scheduling import bind_expr
from _common import verdict, accepted
from _interp import run
@proc
def setx(x: f32):
    x = 7.0
@proc
def foo(x: f32, y: f32, z: f32):
    y = x * 2.0
    setx(x)
    z = x * 2.0
out = []
ok, why = accepted(lambda: out.append(bind_expr(foo, foo.find("x * 2.0", many=True), "b")))
if not ok:
    verdict("C01e-bind_expr-call", False, why)
a, b = run(foo, x=1, y=0, z=0), run(out[0], x=1, y=0, z=0)
print(out[0]); print("original:", a, " rewritten:", b)
verdict("C01e-bind_expr-call", a != b, f"x=1: original z={a['z']}, after bind_expr z={b['z']}")
