"""C04: fuse substitutes the second loop's iterator in expressions but not in the extent of an allocation."""
from __future__ import annotations
import sys
from exo import proc
from exo.stdlib.scheduling import fuse
from _scopes_common import run


@proc
def foo(n: size, x: f32[n], y: f32[n]):
    for i in seq(0, n):
        x[i] = 1.0
    for j in seq(0, n):
        t: f32[j + 1]
        t[0] = 2.0
        y[j] = t[0]


sys.exit(run("F_C04s_fuse", "second iterator in an extent", lambda: fuse(foo, "for i in _: _", "for j in _: _")))
