"""C01 / fold_into_reduce, bind_expr (and inline_assign's pattern): expressions and buffers are compared by their
*printed text*, so two different buffers with the same name are taken for one.  A second buffer named like an
existing one is created by the public API itself (bind_expr with an existing name).
 (a) fold_into_reduce turns `x' = x + 1.0` (x' a new buffer named x) into `x' += 1.0` (reads uninitialised x').
 (b) bind_expr binds `x * 2.0` and `x' * 2.0` to one scalar.
Found by contracts/c01_exprs.py (fold_into_reduce / bind_expr, final-store clause, shapes "same name, other buffer")."""
from __future__ import annotations
from exo import proc
from exo.API_scheduling import bind_expr, fold_into_reduce
from _common import verdict, accepted
from _interp import run
@proc
def foo(x: f32, z: f32):
    z = (x + 1.0) * 2.0
bad = []
p1 = bind_expr(foo, foo.find("x + 1.0", many=True), "x")          # x_1: f32 ; x_1 = x + 1.0 ; z = x_1 * 2.0
res = []
ok, why = accepted(lambda: res.append(fold_into_reduce(p1, p1.find("x = _"))))
if ok:
    a, b = run(foo, x=1, z=0), run(res[0], x=1, z=0)
    print(res[0]); print("fold_into_reduce: original", a, " rewritten", b)
    if a != b:
        bad.append(f"fold_into_reduce: z={a['z']} vs {b['z']}")
else:
    print("fold_into_reduce rejected:", why)
@proc
def bar(x: f32, y: f32, z: f32):
    y = (x + 1.0) * 2.0
    z = x * 2.0
p2 = bind_expr(bar, bar.find("x + 1.0", many=True), "x")           # x_1 = x + 1.0 ; y = x_1 * 2.0 ; z = x * 2.0
res = []
ok, why = accepted(lambda: res.append(bind_expr(p2, p2.find("x * 2.0", many=True), "b")))
if ok:
    a, b = run(bar, x=1, y=0, z=0), run(res[0], x=1, y=0, z=0)
    print(res[0]); print("bind_expr: original", a, " rewritten", b)
    if a != b:
        bad.append(f"bind_expr: z={a['z']} vs {b['z']}")
else:
    print("bind_expr rejected:", why)
verdict("C01e-printed-name", bool(bad), "; ".join(bad))
