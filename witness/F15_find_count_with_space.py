from __future__ import annotations
from exo import proc
from _common import verdict
@proc
def foo(x: f32[4]):
    for i in seq(0, 4):
        x[i] = 1.0
    for i in seq(0, 4):
        x[i] = 2.0
a = str(foo.find_loop('i #1').body()[0]._impl._node)
b = str(foo.find_loop('i # 1').body()[0]._impl._node)
verdict("F15", a != b, f"'i #1' -> {a!r}, 'i # 1' -> {b!r}")
