from __future__ import annotations
from exo import proc
from exo.stdlib.scheduling import divide_with_recompute
from _common import verdict, accepted
@proc
def foo(n: size, x: f32[n + 8]):
    assert n % 4 == 0
    for i in seq(2, n + 3):
        x[i] = 1.0
out = []
ok, why = accepted(lambda: out.append(str(divide_with_recompute(foo, foo.find_loop('i'), "n/4", 4, ["io", "ii"]))))
verdict("F42", ok and "seq(2, n / 4)" in out[0], "loop starting at 2 divided: outer loop keeps the lower bound 2, x[4*io+ii]" if ok else why)
