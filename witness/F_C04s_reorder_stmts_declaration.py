"""C04: reorder_stmts moves a statement above the declaration of a name it uses (window statements and stride())."""
from __future__ import annotations
import sys
from exo import proc
from exo.stdlib.scheduling import reorder_stmts
from _scopes_common import run


@proc
def win(n: size, x: f32[n]):
    t: f32[4]
    w = t[0:2]
    w[0] = 1.0
    x[0] = w[0]


@proc
def strd(n: size, x: f32[n]):
    t: f32[4]
    if stride(t, 0) == 1:
        x[0] = 1.0


rc = 0
rc |= run("F_C04s_reorder", "alloc ; window over it", lambda: reorder_stmts(win, win.find("t : _").expand(0, 1)))
rc |= run("F_C04s_reorder", "window ; write through it", lambda: reorder_stmts(win, win.find("w = _").expand(0, 1)))
rc |= run("F_C04s_reorder", "alloc ; if over its stride", lambda: reorder_stmts(strd, strd.find("t : _").expand(0, 1)))
sys.exit(rc)
