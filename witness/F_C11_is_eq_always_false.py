from __future__ import annotations
import sys; sys.path.insert(0, '/repo/src'); sys.path.insert(0, '/verif/witness')
from exo import proc
from exo.stdlib.scheduling import rename, simplify
from _common import verdict
@proc
def foo(x: f32[8]):
    for i in seq(0, 8):
        x[i] = 0.0
g = rename(foo, "foo2")          # derived from foo, modulo nothing
from exo.core.proc_eqv import check_eqv_proc
print("check_eqv_proc(foo, g)        =", check_eqv_proc(foo._loopir_proc, g._loopir_proc))
print("foo.is_eq(g), foo.is_eq(foo) =", foo.is_eq(g), foo.is_eq(foo))
verdict("F-C11-is_eq", foo.is_eq(foo) is False and foo.is_eq(g) is False and check_eqv_proc(foo._loopir_proc, g._loopir_proc) is True,
        "Procedure.is_eq compares the bool returned by check_eqv_proc with frozenset(): always False")
