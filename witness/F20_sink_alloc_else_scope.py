from __future__ import annotations
from exo import proc
from exo.stdlib.scheduling import sink_alloc
from _common import verdict
@proc
def foo(n: size, y: f32[4]):
    t: f32
    if n > 2:
        t = 1.0
        y[0] = t
    else:
        t = 2.0
        y[1] = t
p = sink_alloc(foo, foo.find('t : _'))
try:
    p.c_code_str()
    verdict("F20", False, "compiled")
except KeyError as e:
    verdict("F20", True, f"else-branch uses a symbol whose Alloc is now in the if-branch: KeyError {e}")
