from __future__ import annotations
from exo import proc
from _common import verdict, accepted
@proc
def nested(y: f32[8]):
    for k in seq(0, 2):
        for i in par(0, 7):
            y[i + 1] = y[i]
ok, why = accepted(lambda: nested.c_code_str())
verdict("F6", ok, "racy nested par loop compiled" if ok else why)
