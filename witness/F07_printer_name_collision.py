from __future__ import annotations
from exo import proc
from _common import verdict
@proc
def foo(a: f32[4]):
    x: f32
    x = 0.0
    for i in seq(0, 4):
        x: f32
        x_1: f32
        x_1 = 1.0
        x = 2.0
        a[i] = x + x_1
out = str(foo)
verdict("F7", "x_1 + x_1" in out, "two distinct variables printed as x_1")
