from __future__ import annotations
from exo import proc
from _common import verdict
@proc
def foo(a: f32[4]):
    x: f32
    x = 0.0
    for i in seq(0, 4):
        x: f32
        x_1: f32
        x_1 = 1.0
        x = 2.0
        a[i] = x + x_1
import re
out = str(foo)
decls = re.findall(r"^\s+(\w+): f32", out, flags=re.M)[1:]   # the two inner allocations
verdict("F7", len(decls) == 2 and decls[0] == decls[1], f"inner allocations printed as {decls}")
