from __future__ import annotations
from exo import proc
from exo.stdlib.scheduling import replace
from _common import verdict
@proc
def callee(x: [f32][4]):
    for i in seq(0, 4):
        x[i] = 0.0
@proc
def foo(y: f32[4], z: f32[4]):
    for i in seq(0, 4):
        y[i] = 0.0
    for j in seq(0, 4):
        z[j] = 1.0
# the block has two statements, the callee body one: DoReplace unifies the
# first statement only but replaces the *whole* block by the call
p = replace(foo, foo.body(), callee)
lost = "z[j] = 1.0" not in str(p)
verdict("F_C05", lost, "replace() of a 2-statement block by a 1-statement callee deleted the second loop:\n" + str(p)
        if lost else "statements after the matched prefix are kept")
