from __future__ import annotations
from exo import proc
from exo.stdlib.scheduling import simplify
from _common import verdict
@proc
def bar(a: f32[4], n: size):
    for i in seq(0, n):
        if i == 0:
            for i in seq(0, 4):
                a[i] = 1.0
out = str(simplify(bar))
verdict("F2", "a[0] = 1.0" in out, out.splitlines()[-1].strip())
