"""C05: a `stride` argument of the callee is bound to the block's stride expression at its FIRST occurrence; later
occurrences are accepted unchecked (Unification.unify_stride_hole: "TODO: Add checks here??").  So
`Cfg.s = stride(a, 0); Cfg.t = stride(a, 1)` is accepted as an instance of `Cfg.s = s; Cfg.t = s` and replaced by
setboth(stride(a, 0)), which stores stride(a, 0) in BOTH fields."""
from __future__ import annotations
from exo import proc, config
from exo.stdlib.scheduling import replace, inline
from _common import verdict

@config
class CfgStr:
    s: stride
    t: stride

@proc
def setboth(s: stride):
    CfgStr.s = s
    CfgStr.t = s

@proc
def p(a: f32[8, 8]):
    CfgStr.s = stride(a, 0)
    CfgStr.t = stride(a, 1)

try:
    q = replace(p, p.body(), setboth, quiet=True)
except Exception as e:
    verdict("F_C05_stride_hole_rebound", False, f"replace refuses the non-instance ({type(e).__name__})")
back = inline(q, "setboth(_)")
verdict("F_C05_stride_hole_rebound", "CfgStr.t = stride(a, 0)" in str(back),
        "replace() accepted two different stride expressions for ONE stride argument:\n" + str(q) +
        "\ninlined back (CfgStr.t receives stride(a, 0) instead of stride(a, 1)):\n" + str(back))
