"""shared by the F_C04s_* witnesses: run a scheduling operator through the public API, then check the result with an
independent scoping checker (every use of a symbol in the scope of exactly one declaration) and try to compile it"""
from __future__ import annotations
import sys
from exo.core.LoopIR import LoopIR, T
from exo.rewrite.new_eff import SchedulingError


def unbound_uses(p):
    p = p.INTERNAL_proc() if hasattr(p, "INTERNAL_proc") else p
    bad = []

    def use(env, s, where):
        if s not in env:
            bad.append(f"{s!r} used at {where} outside the scope of its declaration")

    def do_t(env, t, w):
        if isinstance(t, T.Tensor):
            for e in t.hi:
                do_e(env, e, w + " (extent)")

    def do_e(env, e, w):
        if isinstance(e, LoopIR.Read):
            use(env, e.name, w)
            for i in e.idx:
                do_e(env, i, w)
        elif isinstance(e, LoopIR.WindowExpr):
            use(env, e.name, w)
            for a in e.idx:
                for x in ((a.lo, a.hi) if isinstance(a, LoopIR.Interval) else (a.pt,)):
                    do_e(env, x, w)
        elif isinstance(e, LoopIR.StrideExpr):
            use(env, e.name, w)
        elif isinstance(e, LoopIR.BinOp):
            do_e(env, e.lhs, w)
            do_e(env, e.rhs, w)
        elif isinstance(e, LoopIR.USub):
            do_e(env, e.arg, w)
        elif isinstance(e, LoopIR.Extern):
            for x in e.args:
                do_e(env, x, w)

    def do_b(env, ss):
        env = set(env)
        for s in ss:
            w = f"`{str(s).splitlines()[0]}`"
            if isinstance(s, (LoopIR.Assign, LoopIR.Reduce)):
                use(env, s.name, w)
                for i in s.idx:
                    do_e(env, i, w)
                do_e(env, s.rhs, w)
            elif isinstance(s, LoopIR.WriteConfig):
                do_e(env, s.rhs, w)
            elif isinstance(s, LoopIR.If):
                do_e(env, s.cond, w)
                do_b(env, s.body)
                do_b(env, s.orelse)
            elif isinstance(s, LoopIR.For):
                do_e(env, s.lo, w)
                do_e(env, s.hi, w)
                do_b(env | {s.iter}, s.body)
            elif isinstance(s, LoopIR.Alloc):
                do_t(env, s.type, w)
                env.add(s.name)
            elif isinstance(s, LoopIR.WindowStmt):
                do_e(env, s.rhs, w)
                env.add(s.name)
            elif isinstance(s, LoopIR.Call):
                for x in s.args:
                    do_e(env, x, w)

    env = {a.name for a in p.args}
    for a in p.args:
        do_t(env, a.type, f"argument {a.name}")
    for e in p.preds:
        do_e(env, e, "assertion")
    do_b(env, p.body)
    return bad


def run(fid, what, op):
    """op() applies the scheduling operator; returns a Procedure or a tuple of Procedures"""
    try:
        res = op()
    except SchedulingError as e:
        print(f"NOT-REPRODUCED {fid} {what}: rejected ({str(e).splitlines()[0][:100]})")
        return 0
    except Exception as e:
        print(f"DEFECT-CONFIRMED {fid} {what}: internal {type(e).__name__}: {str(e).splitlines()[0][:100]}")
        return 1
    rc = 0
    for p in (res if isinstance(res, tuple) else (res,)):
        bad = unbound_uses(p)
        if bad:
            try:
                p.c_code_str()
                comp = "compiles (!)"
            except Exception as e:
                comp = f"compilation dies with {type(e).__name__}: {str(e)[:60]}"
            print(p)
            print(f"DEFECT-CONFIRMED {fid} {what}: accepted, result ill-scoped: {bad[0]}; {comp}")
            rc = 1
    if rc == 0:
        print(f"NOT-REPRODUCED {fid} {what}: accepted, result well scoped")
    return rc
