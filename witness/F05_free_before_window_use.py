from __future__ import annotations
from exo import proc
from _common import verdict
@proc
def foo(y: f32[8]):
    x: f32[8]
    w = x[0:4]
    w[0] = 1.0
    y[0] = w[0]
c = foo.c_code_str()
verdict("F5", c.index("free(x);") < c.index("w.data[0] = 1.0f;"), "free(x) precedes use through window w")
