from __future__ import annotations
# C16: BlockCursor.anchor() on a top-level block of the procedure (the edge of
# the tree) raises AssertionError("bad case: proc") instead of yielding
# InvalidCursor() like Cursor.parent() does at the same place.
from exo import proc
from exo.API_cursors import InvalidCursor
from _common import verdict
@proc
def foo(x: f32[4]):
    for i in seq(0, 4):
        x[i] = 1.0
try:
    a = foo.body().anchor()
    verdict("F_C16_block_anchor", not isinstance(a, InvalidCursor), f"anchor of the top-level block = {a!r}")
except Exception as e:
    verdict("F_C16_block_anchor", True, f"{type(e).__name__}: {e}  (parent() gives {foo.body().parent()!r})")
