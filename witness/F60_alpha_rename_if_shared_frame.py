#!/venv/bin/python
"""Alpha_Rename.map_s keeps ONE ChainMap frame for both branches of an If
(src/exo/core/LoopIR.py: `self.push(); stmts = super().map_s(s); self.pop()`), so a
symbol declared in the then-branch is still in the environment while the else-branch
is renamed.  DoLiftScope copies the else block of the outer If under both branches of
the lifted If WITHOUT Alpha_Rename; after two eliminate_dead_code steps the same
symbol is allocated directly in both branches of one If - still well scoped (every
use has exactly one declaration in scope) - and every rewrite that copies the
enclosing code (cut_loop, unroll_loop, ...) dies with a bare AssertionError
(`assert s.name not in self.env`).

Part 2 shows the leak itself on hand-built nodes: a FREE symbol of the else-branch is
renamed to the binder of the then-branch.

exit 1 / DEFECT-CONFIRMED when the real code misbehaves."""
from __future__ import annotations
import os, sys
sys.path.insert(0, os.path.join(os.environ.get("VERIF_REPO", "/repo"), "src"))
sys.path.insert(0, "/verif")
from exo import proc
from exo.stdlib.scheduling import lift_scope, eliminate_dead_code, cut_loop, unroll_loop
from exo.core.LoopIR import LoopIR, T, Alpha_Rename
from exo.core.prelude import Sym, SrcInfo
from exo.core.memory import DRAM
from contracts.frame_ghost import scope_report


@proc
def foo(n: size, m: size, x: f32[8]):
    for k in seq(0, 4):
        if n > 4:
            pass
        else:
            if n > 4:
                if m > 2:
                    x[0] = 1.0
                else:
                    x[1] = 2.0
            else:
                t: f32
                t = 3.0
                x[2] = t


bad = 0
p = lift_scope(foo, foo.find("if m > 2: _"))
for _ in range(2):
    p = eliminate_dead_code(p, p.find("if n > 4: _ #1"))
print(p)
rep = scope_report(p._loopir_proc)
print("well scoped (every use in the scope of exactly one declaration):", rep.ok(), "| declared twice:", rep.duplicate)
for name, op in (("cut_loop", lambda: cut_loop(p, p.find_loop("k"), 2)), ("unroll_loop", lambda: unroll_loop(p, p.find_loop("k")))):
    try:
        op()
        print(name, "succeeded")
    except AssertionError as e:
        print(name, "died with a bare AssertionError inside Alpha_Rename")
        bad += 1

# part 2: the leak on hand-built nodes
S = SrcInfo("witness", 0)
w, x = Sym("w"), Sym("x")
ten = T.Tensor([LoopIR.Const(8, T.int, S)], False, T.f32)
acc = [LoopIR.Interval(LoopIR.Const(0, T.int, S), LoopIR.Const(4, T.int, S), S)]
win = LoopIR.WindowExpr(x, acc, T.Window(ten, T.Tensor([LoopIR.Const(4, T.int, S)], True, T.f32), x, acc), S)
blk = [LoopIR.If(LoopIR.Const(True, T.bool, S),
                 [LoopIR.WindowStmt(w, win, S)],
                 [LoopIR.Assign(w, T.f32, [LoopIR.Const(0, T.int, S)], LoopIR.Const(1.0, T.f32, S), S)], S)]
res = Alpha_Rename(blk).result()
leaked = res[0].orelse[0].name is not w
print("free `w` of the else-branch renamed to the then-branch's binder:", leaked)
bad += leaked
print("DEFECT-CONFIRMED" if bad else "not reproduced")
sys.exit(1 if bad else 0)
