from __future__ import annotations
from exo import proc
from _common import verdict, accepted
def a():
    @proc
    def foo(y: f32[8]):
        x: f32[8]
        w = x[0:4]
        w[9] = 1.0
def e():
    @proc
    def foo(y: f32[8]):
        w = y[4:12]
        w[0] = 1.0
ra, rb = accepted(a)[0], accepted(e)[0]
verdict("F8", ra or rb, f"oob write through window accepted={ra}; oob window accepted={rb}")
