# F72 (C01): CheckFoldBuffer.do_s visited the right-hand side of an assignment with super().do_e, which skips the
# override for the top-level expression: `y[i] = x[i]` (a bare read of the folded buffer) was not counted as an access,
# resize_dim(.., fold=True) accepted `bar` and y[i] receives z[i] instead of z[i - 4].  `bar2` (x[i] + 0.0) is refused.
# Noticed by a seeding sub-agent from code reading; reproduced and put under contract (contracts/c01_foldcheck.py).
from __future__ import annotations
from exo import proc
from exo.stdlib.scheduling import *
@proc
def foo(n: size, y: f32[n], z: f32[n + 4]):
    x: f32[n + 4]
    for i in seq(0, n + 4):
        x[i] = z[i]
    for i in seq(0, n):
        y[i] = x[i]
@proc
def bar(n: size, y: f32[n], z: f32[n + 4]):
    x: f32[n + 4]
    for i in seq(0, n):
        x[i + 4] = z[i]
        y[i] = x[i]
@proc
def bar2(n: size, y: f32[n], z: f32[n + 4]):
    x: f32[n + 4]
    for i in seq(0, n):
        x[i + 4] = z[i]
        y[i] = x[i] + 0.0
for p in (bar, bar2):
    try:
        q = resize_dim(p, "x : _", 0, 2, 0, fold=True)
        print(p.name(), "ACCEPTED\n", q)
    except Exception as e:
        print(p.name(), "rejected:", type(e).__name__, str(e)[:150])
