"""C04: fission / autofission split a block although the second half still uses a name declared in the first half
(a window statement; an allocation that is reduced into, windowed or passed as a window)."""
from __future__ import annotations
import sys
from exo import proc
from exo.stdlib.scheduling import fission
from exo.API_scheduling import autofission
from _scopes_common import run


@proc
def callee(z: [f32][2]):
    z[0] = 0.0


@proc
def win(n: size, x: f32[n], y: f32[n]):
    for i in seq(0, n):
        t: f32[4]
        w = t[0:2]
        y[i] = x[i]
        w[0] = x[i]


@proc
def red(n: size, x: f32[n], y: f32[n]):
    for i in seq(0, n):
        if n > 3:
            t: f32
            y[i] = x[i]
            t += x[i]


@proc
def red_loop(n: size, x: f32[n], y: f32[n]):
    for i in seq(0, n):
        t: f32
        y[i] = x[i]
        t += x[i]


@proc
def call(n: size, x: f32[n], y: f32[n]):
    for i in seq(0, n):
        if n > 3:
            t: f32[4]
            y[i] = x[i]
            callee(t[0:2])


rc = 0
rc |= run("F_C04s_fission", "fission: window statement | write through it", lambda: fission(win, win.find("y[_] = _").after()))
rc |= run("F_C04s_fission", "autofission: window statement | write through it", lambda: autofission(win, win.find("y[_] = _").after()))
rc |= run("F_C04s_fission", "fission (if): alloc | reduce into it", lambda: fission(red, red.find("y[_] = _").after()))
rc |= run("F_C04s_fission", "autofission (loop): alloc | reduce into it", lambda: autofission(red_loop, red_loop.find("y[_] = _").after()))
rc |= run("F_C04s_fission", "fission (if): alloc | call passing a window of it", lambda: fission(call, call.find("y[_] = _").after()))
sys.exit(rc)
