"""C01 / lift_reduce_constant (DoLiftConstant): the first statement of the block is never required to be `x = 0.0`:
`x = 5.0; for i: x += c * y[i]` -> `x = 5.0; for i: x += y[i]; x = c * x` (and `x += 1.0; ...` -> `...; x += c * x`).
Found by contracts/c01_exprs.py (lift_reduce_constant -> DoLiftConstant, final-store clause)."""
from __future__ import annotations
from exo import proc
from exo.API_scheduling import lift_reduce_constant
from _common import verdict, accepted
from _interp import run
@proc
def init5(n: size, x: f32, y: f32[n], c: f32):
    x = 5.0
    for i in seq(0, n):
        x += c * y[i]
@proc
def init_reduce(n: size, x: f32, y: f32[n], c: f32):
    x += 1.0
    for i in seq(0, n):
        x += c * y[i]
bad = []
for p in (init5, init_reduce):
    res = []
    ok, why = accepted(lambda: res.append(lift_reduce_constant(p, p.body()[0].as_block().expand(0, 1))))
    if not ok:
        print(p.name(), "rejected:", why)
        continue
    inp = dict(n=2, x=1, y=[1, 2], c=3)
    a, b = run(p, **inp), run(res[0], **inp)
    print(res[0]); print("original:", a["x"], " rewritten:", b["x"])
    if a != b:
        bad.append(f"{p.name()}: x={a['x']} vs {b['x']}")
verdict("C01e-lift_reduce_constant-init", bool(bad), "; ".join(bad))
