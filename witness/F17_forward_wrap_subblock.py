from __future__ import annotations
from exo import proc
from exo.stdlib.scheduling import divide_loop
from exo.core.internal_cursors import InvalidCursorError
from _common import verdict
@proc
def foo(x: f32[8], y: f32[8], z: f32[8]):
    for i in seq(0, 8):
        x[i] = 0.0
        y[i] = 1.0
        z[i] = 2.0
loop = foo.find_loop('i')
sub = loop.body()[1:3]
want = [str(c._impl._node).replace('i', 'I') for c in sub]
p = divide_loop(foo, loop, 4, ['io', 'ii'], perfect=True)
try:
    got = [str(c._impl._node) for c in p.forward(sub)]
    bad = len(got) != 2 or not (got[0].startswith('y[') and got[1].startswith('z['))
    verdict("F17", bad, f"forwarded block = {got}")
except InvalidCursorError as e:
    verdict("F17", False, "reported invalid")
except Exception as e:
    verdict("F17", True, f"dangling cursor: {type(e).__name__}: {e}")
