"""C04: autolift_alloc lifts an allocation past the loop its extent depends on (directly, or through the loop bound
it copies with keep_dims=True)."""
from __future__ import annotations
import sys
from exo import proc
from exo.API_scheduling import autolift_alloc
from _scopes_common import run


@proc
def ext(n: size, x: f32[n]):
    for i in seq(0, n):
        for j in seq(0, 4):
            for k in seq(0, 4):
                t: f32[j + 1]
                t[0] = x[i]


@proc
def bound(n: size, x: f32[n]):
    for i in seq(0, n):
        for j in seq(0, i + 1):
            t: f32
            t = x[j]
            x[i] = t


rc = 0
rc |= run("F_C04s_autolift", "extent over a crossed iterator, n_lifts=2", lambda: autolift_alloc(ext, "t : _", n_lifts=2))
rc |= run("F_C04s_autolift", "keep_dims copies a bound over a crossed iterator", lambda: autolift_alloc(bound, "t : _", n_lifts=2, keep_dims=True))
sys.exit(rc)
