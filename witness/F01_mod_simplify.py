from __future__ import annotations
from exo import proc
from exo.stdlib.scheduling import simplify
from _common import verdict
@proc
def bar(y: f32[8]):
    for i in seq(0, 4):
        y[(i - 1) % 4] = 1.0
out = str(simplify(bar))
verdict("F1", "% 4" not in out, out.splitlines()[-1].strip())
