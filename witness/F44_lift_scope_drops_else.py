from __future__ import annotations
from exo import proc
from exo.stdlib.scheduling import lift_scope
from _common import verdict, accepted
@proc
def foo(n: size, m: size, x: f32[4]):
    if n < 3:
        if m < 3:
            x[0] = 1.0
    else:
        x[1] = 2.0
ok, why = accepted(lambda: lift_scope(foo, foo.find('if m < 3: _')))
verdict("F44", ok, "inner if without else lifted: x[1] = 2.0 no longer runs when n >= 3 and m >= 3" if ok else why)
