from __future__ import annotations
from exo import proc
from exo.stdlib.scheduling import join_loops
from _common import verdict, accepted
@proc
def foo(n: size, x: f32[2 * n], y: f32[2 * n]):
    for i in seq(0, n):
        x[i] = 1.0
        y[i] = 2.0
    for i in seq(n, 2 * n):
        x[i] = 1.0
ok, why = accepted(lambda: join_loops(foo, foo.find_loop('i'), foo.find_loop('i #1')))
verdict("F41", ok, "loops with bodies of different length joined: y[i] = 2.0 now runs over [0, 2n)" if ok else why)
