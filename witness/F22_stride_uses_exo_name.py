from __future__ import annotations
from exo import proc
from exo.stdlib.scheduling import inline
from _common import verdict
@proc
def callee(v: [f32][4]):
    for i in seq(0, 4):
        v[i] = 1.0
@proc
def foo(x: f32[8, 8], y: f32[8]):
    callee(x[0:4, 0])
    callee(y[0:4])
p = inline(foo, foo.find('callee(_)'))
p = inline(p, p.find('callee(_)'))
c = p.c_code_str()
verdict("F22", "v_1.data[i * v.strides[0]]" in c, "window v_1 (stride 1) indexed with v.strides[0] (= 8): writes y[8], y[16], y[24]")
