from __future__ import annotations
from exo import proc, config
from exo.stdlib.scheduling import simplify
from _common import verdict
@config
class Cfg:
    a: index
@proc
def bar(x: f32[8]):
    if Cfg.a == 3:
        Cfg.a = 4
        x[Cfg.a] = 1.0
out = str(simplify(bar))
verdict("F14", "x[3] = 1.0" in out, out.splitlines()[-1].strip())
