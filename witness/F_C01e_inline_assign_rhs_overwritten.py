"""C01 / inline_assign (DoInlineAssign): `x = y; y = 2.0; z = x` -> `y = 2.0; z = y`: a statement between the
assignment and the replaced read writes what the right-hand side reads (only later writes to x are checked).
Found by contracts/c01_exprs.py (inline_assign -> DoInlineAssign, final-store clause)."""
from __future__ import annotations
from exo import proc
from exo.API_scheduling import inline_assign
from _common import verdict, accepted
from _interp import run
@proc
def foo(y: f32, z: f32):
    x: f32
    x = y
    y = 2.0
    z = x
out = []
ok, why = accepted(lambda: out.append(inline_assign(foo, foo.find("x = y"))))
if not ok:
    verdict("C01e-inline_assign-rhs-overwritten", False, why)
a, b = run(foo, y=7, z=0), run(out[0], y=7, z=0)
print(out[0]); print("original:", a, " rewritten:", b)
verdict("C01e-inline_assign-rhs-overwritten", a != b, f"y=7: original z={a['z']}, after inline_assign z={b['z']}")
