from __future__ import annotations
from exo import proc
from exo.stdlib.scheduling import reuse_buffer
from _common import verdict, accepted
# DoReuseBuffer never checks that the reused buffer is in scope where the eliminated one was used
@proc
def inner(a: f32, b: f32):
    for i in seq(0, 4):
        bb: f32
        bb = a
    c: f32
    c = 2.0
    b = c
@proc
def later(a: f32, b: f32):
    c: f32
    c = 2.0
    b = c
    bb: f32
    bb = a
bad = []
for p in (inner, later):
    ok, why = accepted(lambda: reuse_buffer(p, "bb:_", "c:_"))
    if ok:
        q = reuse_buffer(p, "bb:_", "c:_")
        try:
            q.c_code_str()
        except KeyError as e:
            bad.append(f"{p.name()}: accepted, result uses undeclared {e}")
verdict("F24", len(bad) == 2, "; ".join(bad) if bad else "rejected")
