from __future__ import annotations
from exo import proc
from exo.stdlib.scheduling import replace
from _common import verdict, accepted
@proc
def callee2(n: size, x: [f32][n]):
    assert stride(x, 0) == 1
    for i in seq(0, n):
        x[i] = 0.0
@proc
def foo2(y: f32[4, 4]):
    for i in seq(0, 4):
        y[i, 1] = 0.0
ok, why = accepted(lambda: replace(foo2, foo2.find_loop('i'), callee2))
verdict("F9", ok, "callee with stride==1 assertion substituted on a strided column" if ok else why)
