"""C01 / inline_assign (DoInlineAssign): the assignment `x = y` is deleted although the location x is still
observable afterwards: (a) x is an argument (output) of the procedure, (b) x is read after the block that contains
the assignment, (c) x[i] = y is deleted while a read x[j] with j == i is left in place (the reads are matched by the
printed text `x[i]`).  Found by contracts/c01_exprs.py (inline_assign -> DoInlineAssign, final-store clause)."""
from __future__ import annotations
from exo import proc
from exo.API_scheduling import inline_assign
from _common import verdict, accepted
from _interp import run
@proc
def out_arg(x: f32, y: f32, z: f32):
    x = y
    z = x
@proc
def read_after(n: size, y: f32, z: f32, w: f32):
    x: f32
    x = 1.0
    if n < 3:
        x = y
        z = x
    w = x
@proc
def alias(y: f32, z: f32, i: index, j: index):
    assert 0 <= i and i < 4 and 0 <= j and j < 4
    x: f32[4]
    x[j] = 1.0
    x[i] = y
    z = x[j]
bad, notes = [], []
for name, p, cur, inp in (("output argument", out_arg, lambda p: p.body()[0], dict(x=1, y=2, z=3)),
                          ("read after the block", read_after, lambda p: p.find("x = y"), dict(n=1, y=2, z=3, w=4)),
                          ("aliasing read x[j], j == i", alias, lambda p: p.find("x[i] = y"), dict(y=2, z=3, i=1, j=1))):
    res = []
    ok, why = accepted(lambda: res.append(inline_assign(p, cur(p))))
    if not ok:
        notes.append(f"{name}: rejected ({why})")
        continue
    a, b = run(p, **inp), run(res[0], **inp)
    print(res[0]); print(f"{name}: original {a}  rewritten {b}")
    if a != b:
        bad.append(name)
verdict("C01e-inline_assign-live-target", bool(bad), "final contents differ: " + ", ".join(bad) + "; ".join(notes))
