from exo.rewrite.range_analysis import IndexRange, zero
from _common import verdict
r = IndexRange(zero(), None, 5) | IndexRange(zero(), 2, 7)
verdict("F11", r.lo is not None, f"join of (-inf,5] and [2,7] = {r}")
