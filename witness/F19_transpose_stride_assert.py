from __future__ import annotations
from exo import proc
from _common import verdict
@proc
def foo(n: size, m: size, a: [f32][n, m], b: f32[n, m]):
    assert stride(a, 1) == 1
    for i in seq(0, n):
        for j in seq(0, m):
            b[i, j] = a[i, j]
out = str(foo.transpose(foo.args()[2]))
verdict("F19", "stride(a, 1) == 1" in out and "a[j, i]" in out, "accesses permuted, stride assertion not")
