import sys
def verdict(fid, bad, detail=""):
    if bad:
        print(f"DEFECT-CONFIRMED {fid} {detail}"); sys.exit(1)
    print(f"NOT-REPRODUCED {fid} {detail}"); sys.exit(0)
def accepted(fn):
    try:
        fn(); return True, ""
    except Exception as e:
        return False, f"{type(e).__name__}: {str(e).splitlines()[0][:120]}"
