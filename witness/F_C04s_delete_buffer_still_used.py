"""C04: delete_buffer deletes an allocation that a window statement or stride() still mentions."""
from __future__ import annotations
import sys
from exo import proc
from exo.stdlib.scheduling import delete_buffer
from _scopes_common import run


@proc
def win(n: size, x: f32[n]):
    for i in seq(0, n):
        t: f32[4]
        w = t[0:2]
        x[i] = 1.0


@proc
def strd(n: size, x: f32[n]):
    for i in seq(0, n):
        t: f32[4]
        if stride(t, 0) == 1:
            x[i] = 1.0


rc = 0
rc |= run("F_C04s_delete", "buffer used by a window statement", lambda: delete_buffer(win, "t : _"))
rc |= run("F_C04s_delete", "buffer used through stride()", lambda: delete_buffer(strd, "t : _"))
sys.exit(rc)
