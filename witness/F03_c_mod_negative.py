from __future__ import annotations
from exo import proc
from _common import verdict
@proc
def foo(y: f32[8], x: f32[4]):
    for i in seq(0, 4):
        y[i] = x[(i + 3 - 4) % 4]
c = foo.c_code_str()
verdict("F3", "x[(i + 3 - 4) % 4]" in c, "C '%' on a numerator that is -1 at i=0")
