# F70 (C04): divide_loop / shift_loop substituted the loop iterator only where expression cursors reach;
# an allocation extent that mentions the iterator (tmp: f32[i + 1]) kept the old symbol: out of scope after
# divide_loop (compile: KeyError), stale after shift_loop.  Found by a seeding sub-agent while probing.
from __future__ import annotations
from exo import proc
from exo.stdlib.scheduling import *
@proc
def foo(n: size, x: f32[n+1]):
    for i in seq(0, n):
        tmp: f32[i + 1]
        for j in seq(0, i + 1):
            tmp[j] = 1.0
        x[i] = tmp[0]
p = divide_loop(foo, "i", 4, ["io", "ii"], tail="cut")
print(p)
try:
    print(p.c_code_str()[:1500])
except Exception as e:
    print("compile error:", type(e).__name__, e)
p2 = shift_loop(foo, "i", 1)
print(p2)
