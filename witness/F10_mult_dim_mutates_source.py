from __future__ import annotations
from exo import proc
from exo.stdlib.scheduling import mult_dim
from _common import verdict
@proc
def foo(y: f32[8]):
    x: f32[4, 2]
    for i in seq(0, 4):
        for j in seq(0, 2):
            x[i, j] = 1.0
    for i in seq(0, 4):
        for j in seq(0, 2):
            y[2 * i + j] = x[i, j]
before = str(foo)
mult_dim(foo, 'x', 0, 1)
verdict("F10", str(foo) != before, "source procedure text changed after mult_dim")
