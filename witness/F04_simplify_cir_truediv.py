from __future__ import annotations
from exo import proc
from _common import verdict
@proc
def baz(y: f32[8]):
    y[4 / 2] = 1.0
    y[5 / 2] = 1.0
c = baz.c_code_str()
verdict("F4", "y[2.0]" in c or "y[2.5]" in c, "non-integer array subscript in emitted C")
