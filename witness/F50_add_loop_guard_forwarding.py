#!/venv/bin/python
"""C06 witness: add_loop(..., guard=True) forwards the cursor to the wrapped statement to the NEW guard
`if k == 0:` instead of to the statement itself (a different statement).

DoAddLoop wraps the statement with ONE Block._wrap whose constructor builds two levels
(`for k: if k == 0: s`); the wrap forwarding adds one level (`body[0]` of the loop), so every cursor
to the statement (node, gaps, block) stops at the guard.  With guard=False the forwarding is right.
"""
from __future__ import annotations
from exo import proc
from exo.stdlib.scheduling import add_loop
from exo.API_cursors import AssignCursor, IfCursor


@proc
def foo(x: f32[8]):
    x[0] = 1.0
    x[1] = 2.0
    x[2] = 3.0


s = foo.find("x[1] = _")
p2 = add_loop(foo, s, "k", 4, guard=True)
f = p2.forward(s)
print(p2)
print("forward(cursor to `x[1] = 2.0`) ->", type(f).__name__, "::", str(f).strip().splitlines()[0])
g = p2.forward(s.after())
print("forward(gap after the statement) anchored at ->", type(g.anchor()).__name__)
p3 = add_loop(foo, s, "k", 4, guard=False)
print("guard=False: forward ->", type(p3.forward(s)).__name__)
bad = isinstance(f, IfCursor) and not isinstance(f, AssignCursor)
print("DEFECT-CONFIRMED" if bad else "not reproduced")
