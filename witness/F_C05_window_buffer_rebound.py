"""C05: a callee buffer passed as a WINDOW is bound to the block buffer of its FIRST access only; later accesses
through the same callee buffer are never compared with it (Unification.unify_accesses, windowed path).  So
`a[i] = b[i] + 1.0` is accepted as an instance of `x[i] = x[i] + 1.0` and replaced by incr(8, b[0:8]), which
computes b[i] = b[i] + 1.0.  (With a non-window argument the same pair is rejected by unify_buf_name_no_win.)"""
from __future__ import annotations
from exo import proc
from exo.stdlib.scheduling import replace, inline
from _common import verdict

@proc
def incr(n: size, x: [f32][n]):
    for i in seq(0, n):
        x[i] = x[i] + 1.0

@proc
def p(a: f32[8], b: f32[8]):
    for i in seq(0, 8):
        a[i] = b[i] + 1.0

try:
    q = replace(p, p.find_loop("i"), incr, quiet=True)
except Exception as e:
    verdict("F_C05_window_buffer_rebound", False, f"replace refuses the non-instance ({type(e).__name__})")
back = inline(q, "incr(_)")
verdict("F_C05_window_buffer_rebound", "incr(8, b[0:8])" in str(q),
        "replace() accepted `a[i] = b[i] + 1.0` as an instance of `x[i] = x[i] + 1.0`:\n" + str(q) +
        "\ninlined back (a is never written, b is incremented in place):\n" + str(back))
