from __future__ import annotations
from exo import proc, DRAM, instr
from exo.stdlib.scheduling import insert_noop_call
from _common import verdict, accepted
@instr("prefetch(&{A_data}, {hint});")
def pf(A: [f32][1] @ DRAM, hint: size):
    assert hint < 8
    pass
@proc
def foo(x: f32[8]):
    for i in seq(0, 8):
        x[i] = 1.0
ok, why = accepted(lambda: insert_noop_call(foo, foo.find('x[_] = _').before(), pf, ["x[i + 20:i + 21]", "9"]))
verdict("F23", ok, "call inserted with hint=9 (assert hint < 8) and a window 20 past the end of x" if ok else why)
