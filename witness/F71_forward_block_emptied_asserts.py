# F71 (C06): a block cursor all of whose statements a rewrite removed (here: the block holding an `if` that lift_scope
# dissolved) is forwarded to an EMPTY block by the internal forwarding function; Procedure.forward then died with an
# AssertionError in lift_cursor instead of reporting InvalidCursorError.  Noticed by a seeding sub-agent.
from __future__ import annotations
from exo import proc
from exo.stdlib.scheduling import *
from exo.API_cursors import InvalidCursorError
@proc
def foo(n: size, x: f32[n]):
    for i in seq(0, n):
        if n > 4:
            if i < 2:
                x[i] = 1.0
            else:
                x[i] = 2.0
outer_if = foo.find("if n > 4: _")
inner_if = foo.find("if i < 2: _")
blk = outer_if.as_block()
p = lift_scope(foo, inner_if)
print(p)
for name, c in [("outer_if node", outer_if), ("outer_if block", blk), ("loop body block", foo.find_loop("i").body())]:
    try:
        r = p.forward(c)
        print(name, "->", type(r).__name__, str(r)[:60].replace("\n", " / "))
    except InvalidCursorError as e:
        print(name, "-> InvalidCursorError", e)
    except Exception as e:
        print(name, "-> ", type(e).__name__, e)
import traceback
try:
    p.forward(foo.find_loop("i").body())
except Exception:
    traceback.print_exc()
