from __future__ import annotations
from exo import proc
from exo.stdlib.scheduling import rewrite_expr
from _common import verdict
@proc
def foo(x: f32[8, 8], n: size):
    assert n < 4
    for i in seq(0, 4):
        x[i + 0, n + 1] = 1.0
s = foo.find('x[_] = _')
c0, c1 = s.idx()[0], s.idx()[1]
p = rewrite_expr(foo, c0, "i")
got = str(p.forward(c1)._impl._node)
verdict("F16(note)", got != "n + 1", f"sibling index cursor forwarded to {got!r}")
