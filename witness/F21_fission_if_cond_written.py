from __future__ import annotations
from exo import proc, config
from exo.stdlib.scheduling import fission
from _common import verdict, accepted
@config
class Cfg:
    a: index
@proc
def foo(y: f32[4]):
    if Cfg.a == 0:
        Cfg.a = 1
        y[0] = 2.0
ok, why = accepted(lambda: fission(foo, foo.find('Cfg.a = _').after()))
verdict("F21", ok, "if fissioned although its first half rewrites the condition" if ok else why)
