from __future__ import annotations
from exo import proc
from exo.stdlib.scheduling import remove_loop
from _common import verdict
@proc
def foo(n: size, x: f32[1]):
    assert n >= 3
    for i in seq(3, n):
        x[0] = 1.0
out = str(remove_loop(foo, foo.find_loop('i')))
verdict("F12", "if" not in out and "for" not in out, "loop that is empty for n==3 replaced by unconditional body")
