"""Mutation self-test (DESIGN 2.2): apply source-level mutants to a scratch copy
of /repo/src (outside /repo and /verif), run the quick check against it with
VERIF_REPO pointing at the copy, delete the copy.  Reports which mutants are
detected (exit 1), undecided (exit 2) or missed (exit 0).

usage: python -m pyvc.mutate <PROP> [mutants.json]
mutants file: [{"id":..., "file":..., "old":..., "new":..., "count":1}, ...]
"""
from __future__ import annotations
import json, os, shutil, subprocess, sys, tempfile

VERIF = os.path.dirname(os.path.dirname(os.path.abspath(__file__)))


def run_mutant(prop, m, repo="/repo", extra_args=()):
    d = tempfile.mkdtemp(prefix="pyvc_mut_", dir="/var/tmp")
    try:
        shutil.copytree(os.path.join(repo, "src"), os.path.join(d, "src"),
                        ignore=shutil.ignore_patterns("__pycache__"))
        p = os.path.join(d, m["file"])
        s = open(p).read()
        if s.count(m["old"]) < 1:
            return "stale", f"pattern not found in {m['file']}"
        if m.get("count", 1) == 1 and s.count(m["old"]) != 1:
            return "stale", f"pattern occurs {s.count(m['old'])} times"
        s = s.replace(m["old"], m["new"])
        open(p, "w").write(s)
        env = dict(os.environ, VERIF_REPO=d, VERIF_EVIDENCE_DIR=os.path.join(d, "evidence"),
                   PYTHONDONTWRITEBYTECODE="1")
        r = subprocess.run([os.path.join(VERIF, "check"), prop, *extra_args], env=env,
                           capture_output=True, text=True, timeout=3600)
        out = r.stdout + r.stderr
        st = {0: "missed", 1: "detected", 2: "undecided", 3: "crash"}.get(r.returncode, f"rc{r.returncode}")
        return st, out
    finally:
        shutil.rmtree(d, ignore_errors=True)


def main(argv):
    prop = argv[0]
    path = argv[1] if len(argv) > 1 else os.path.join(VERIF, "mutants", f"{prop}.json")
    muts = json.load(open(path))
    only = argv[2] if len(argv) > 2 else None
    res = {}
    for m in muts:
        if only and only not in m["id"]:
            continue
        st, out = run_mutant(prop, m)
        res[m["id"]] = st
        tail = [l for l in out.splitlines() if l.startswith(("VIOLATION", "UNDECIDED", "CHECKER", "["))][:3]
        print(f"{m['id']:40s} {st:10s} {' | '.join(tail)[:200]}")
    n = sum(1 for v in res.values() if v == "detected")
    print(f"{n}/{len(res)} detected")
    return res


if __name__ == "__main__":
    main(sys.argv[1:])
