"""`range(start, stop)` (step 1) whose bounds may be symbolic ints.

Python's `range` insists on machine ints, so the interpreter substitutes this
class when `range(...)` is called with a proxy.  It implements exactly the
part of the `range` protocol that has a closed form for step 1: `.start/.stop/
.step`, length, membership, equality (ranges compare as sequences: two empty
ranges are equal whatever their bounds), integer indexing with negative
indices and IndexError, slicing with Python's clipping rules.  Iteration is
only possible when the length is decided on the path (the caller forks on it,
see Interp.iterate).
"""
from __future__ import annotations
from . import sym as S
from .sym import SInt, SBool, Unsupported


def _isint(x):
    return isinstance(x, (int, SInt, SBool))


class SRange:
    __slots__ = ("start", "stop")
    step = 1

    def __init__(self, start, stop=None):
        if stop is None:
            start, stop = 0, start
        if not (_isint(start) and _isint(stop)):
            raise TypeError("range bounds must be integers")
        if isinstance(start, SBool):
            start = start._asint()
        if isinstance(stop, SBool):
            stop = stop._asint()
        self.start, self.stop = start, stop

    @staticmethod
    def of(r):
        if isinstance(r, SRange):
            return r
        if isinstance(r, range) and r.step == 1:
            return SRange(r.start, r.stop)
        raise Unsupported("symbolic operation on a range with step != 1")

    def concrete(self):
        if isinstance(self.start, int) and isinstance(self.stop, int):
            return range(self.start, self.stop)
        return None

    def length(self):
        return S.Max(0, self.stop - self.start)

    def __len__(self):
        c = self.concrete()
        if c is not None:
            return len(c)
        raise Unsupported("native len() of a symbolic range")

    def __repr__(self):
        return f"SRange({self.start}, {self.stop})"

    def __hash__(self):
        raise Unsupported("symbolic range hashed")

    def __bool__(self):
        return bool(self.length() > 0)

    def contains(self, x):
        """membership as a term (no fork)"""
        if not _isint(x):
            return False
        return S.And(self.start <= x, x < self.stop)

    def __contains__(self, x):
        return bool(self.contains(x))

    def eq(self, o):
        if not isinstance(o, (range, SRange)):
            return NotImplemented
        o = SRange.of(o)
        la, lb = self.length(), o.length()
        return S.And(la == lb, S.Or(la == 0, self.start == o.start))

    def __eq__(self, o):
        return self.eq(o)

    def __ne__(self, o):
        r = self.eq(o)
        if r is NotImplemented:
            return r
        return S.Not(r)

    def _clip(self, x, n, default):
        if x is None:
            return default
        if not _isint(x):
            raise TypeError("slice indices must be integers or None")
        return S.Ite(x < 0, S.Max(x + n, 0), S.Min(x, n))

    def __getitem__(self, i):
        n = self.length()
        if isinstance(i, slice):
            if i.step not in (None, 1):
                c = self.concrete()
                if c is not None and all(isinstance(v, int) or v is None
                                         for v in (i.start, i.stop, i.step)):
                    return c[i]
                raise Unsupported("slice of a symbolic range with a step")
            lo = self._clip(i.start, n, 0)
            hi = self._clip(i.stop, n, n)
            return SRange(self.start + lo, self.start + hi)
        if not _isint(i):
            raise TypeError("range indices must be integers or slices")
        if i < 0:
            i = i + n
        if 0 <= i and i < n:
            return self.start + i
        raise IndexError("range object index out of range")

    def __iter__(self):
        c = self.concrete()
        if c is not None:
            return iter(c)
        raise Unsupported("iteration over a symbolic range (length not decided)")
