"""Command-line driver: runs every contract of a property, replays
refutations, writes evidence, maps results to exit codes."""
from __future__ import annotations
import argparse, hashlib, importlib, json, multiprocessing as mp, os, re, subprocess, sys, time, traceback

VERIF = os.path.dirname(os.path.dirname(os.path.abspath(__file__)))

def discover(prop):
    """Contract modules of a property are the files contracts/<prop lower>_*.py.
    A module may define ENGINES = ["pkg.mod:function", ...] (extra engines such
    as the ownership analysis or the C-helper VC; each returns a result dict) and
    ASSUMPTIONS = [...] (strings copied into the evidence file)."""
    import glob
    mods = sorted(os.path.basename(p)[:-3] for p in
                  glob.glob(os.path.join(VERIF, "contracts", prop.lower() + "_*.py")))
    if not mods:
        return None
    return dict(modules=["contracts." + m for m in mods])

from .contract import FRAME_ASSUMPTION

GLOBAL_ASSUMPTIONS = [
    "pyvc's model of the Python subset agrees with CPython (mitigated by the concrete cross-check; not proved)",
    "z3 (and cvc5 where used) are sound",
    "Python ints are mathematical integers (exact); no machine arithmetic is involved in the Python code",
    "container/ADT parameters are instantiated to the constructor shapes enumerated by each contract's input generator; integer leaves are fully symbolic",
    FRAME_ASSUMPTION,
]

DROPPED = ["docstrings", "type annotations", "decorators other than staticmethod/classmethod/property/"
           "cached_property/dataclass/extclass (honoured via the real class objects)",
           "text of f-strings that depend on symbolic values (opaque strings)", "print calls"]


def REPLAY_DIR():
    ev = os.environ.get("VERIF_EVIDENCE_DIR")
    return os.path.join(os.path.dirname(ev), "replay") if ev else os.path.join(VERIF, "replay")


def _slug(s):
    return re.sub(r"[^A-Za-z0-9_.-]+", "_", s)[:120]


_BIG = None


def _big_frame():
    """CPython >= 3.11 keeps interpreter frames in 16 KiB "data stack" chunks
    that are mmap'ed / munmap'ed whenever the call depth crosses a chunk
    boundary.  pyvc's recursive AST interpreter crosses boundaries constantly,
    and at unlucky base depths (such as that of a multiprocessing worker) this
    made a run 5-10x slower, all of it system time.  A function with > 2^18
    local variables needs a 4 MiB chunk of its own; everything called from
    inside it lives in the ~2 MiB that remain free in that chunk, so the hot
    recursion never touches a chunk boundary.  (Measured: per-path time becomes
    independent of the base depth.)"""
    global _BIG
    if _BIG is None:
        import types
        n = 262144 + 256

        def _small(f):
            return f()
        c = _small.__code__
        names = ("f",) + tuple(f"v{i}" for i in range(n))
        # same code, but a frame with > 2^18 local slots (much cheaper than
        # compiling a function that really assigns that many locals)
        _BIG = types.FunctionType(c.replace(co_varnames=names, co_nlocals=len(names)), globals(), "_big")
    return _BIG


def _worker(job):
    return _big_frame()(lambda: _worker_body(job))


def _worker_body(job):
    cid, module, tmo, prefixes, expand = job
    try:
        sys.path.insert(0, VERIF)
        from pyvc.run import run_contract, ensure_repo_on_path
        ensure_repo_on_path()
        importlib.import_module(module)
        from pyvc.contract import REGISTRY
        c = REGISTRY[cid]
        r = run_contract(c, timeout_ms=tmo, prefixes=prefixes, expand=expand)
        return cid, r, None
    except Exception as e:
        return cid, None, "".join(traceback.format_exception(e))[-3000:]


def load_known():
    p = os.path.join(VERIF, "known_findings.json")
    if not os.path.exists(p):
        return {"known": [], "fixed": []}
    with open(p) as f:
        return json.load(f)


def load_baseline():
    p = os.path.join(VERIF, "baseline_obligations.json")
    if not os.path.exists(p):
        return {}
    with open(p) as f:
        return json.load(f)


def main(argv):
    ap = argparse.ArgumentParser()
    ap.add_argument("prop")
    ap.add_argument("--tier", default=os.environ.get("VERIF_TIER", "quick"))
    ap.add_argument("--replay")
    ap.add_argument("--write-baseline", action="store_true")
    ap.add_argument("--jobs", type=int, default=min(16, os.cpu_count() or 4))
    ap.add_argument("--only", help="substring filter on contract ids (debugging)")
    ap.add_argument("-v", "--verbose", action="store_true")
    args = ap.parse_args(argv)
    if args.replay:
        return subprocess.call(["/venv/bin/python", args.replay])
    try:
        return run_property(args)
    except SystemExit:
        raise
    except Exception:
        traceback.print_exc()
        return 3


def run_property(args):
    prop = args.prop
    spec = discover(prop)
    if spec is None:
        print(f"unknown or unclaimed property {prop}")
        return 3
    tier = "thorough" if args.tier == "thorough" else "quick"
    seed = int(os.environ.get("VERIF_SEED", "0") or 0)
    t0 = time.time()
    sys.path.insert(0, VERIF)
    from pyvc.run import ensure_repo_on_path, repo_root
    ensure_repo_on_path()
    from pyvc.contract import REGISTRY
    mod_of = {}
    spec.setdefault("engines", [])
    spec.setdefault("assumptions", [])
    for m in spec.get("modules", []):
        before = set(REGISTRY)
        mod = importlib.import_module(m)
        spec["engines"] += list(getattr(mod, "ENGINES", []))
        spec["assumptions"] += list(getattr(mod, "ASSUMPTIONS", []))
        for cid in REGISTRY:
            if cid not in before:
                mod_of.setdefault(cid, m)
    # contracts registered by modules that this property's modules import
    # (shared helpers) belong to their own property
    for cid, c in REGISTRY.items():
        if c.prop == prop and cid not in mod_of:
            mod_of[cid] = sys.modules[c.__dict__.get("defined_in", spec["modules"][0])].__name__ \
                if c.__dict__.get("defined_in") else spec["modules"][0]
    cids = [cid for cid, c in REGISTRY.items() if c.prop == prop and cid in mod_of]
    if args.only:
        cids = [c for c in cids if args.only in c]
    tmo = 60000 if tier == "thorough" else 10000
    from pyvc.run import merge_results, SHARED_INDEX
    for cid in cids:
        try:
            SHARED_INDEX.load(os.path.join(repo_root(), REGISTRY[cid].file))
        except Exception:
            pass
    results = {}
    crashes = []
    ctxm = mp.get_context("fork")
    _big_frame()            # compile once, the workers inherit it
    pool = ctxm.Pool(args.jobs)
    try:
        # phase 1: the first two levels of every path tree (cheap), so that
        # phase 2 can spread sub-trees of big functions over all cores
        frontier = {cid: [()] for cid in cids}
        for _round in range(3):
            # spread wide frontiers (many shapes) over the pool as well
            jobs = [(cid, mod_of[cid], tmo, ps[i:i + 4], False) for cid, ps in frontier.items() if ps
                    for i in range(0, len(ps), 4)]
            frontier = {}
            for cid, r, err in pool.imap_unordered(_worker, jobs):
                if err:
                    crashes.append((cid, err))
                    continue
                results[cid] = merge_results(results[cid], r) if cid in results else r
                frontier.setdefault(cid, []).extend(r.pending)
        jobs = []
        for cid, ps in frontier.items():
            for p in ps:
                jobs.append((cid, mod_of[cid], tmo, [p], True))
        jobs.sort(key=lambda j: -len(j[3][0]))
        for cid, r, err in pool.imap_unordered(_worker, jobs, chunksize=1):
            if err:
                crashes.append((cid, err))
            else:
                results[cid] = merge_results(results[cid], r) if cid in results else r
    finally:
        # close+join instead of the context manager's terminate(): the workers
        # are idle here and terminate() can wait a long time on a busy machine
        pool.close()
        pool.join()

    # extra engines (ownership analysis, C helper VC, bounded stand-ins ...)
    extra = []
    for eng in spec.get("engines", []):
        modname, fn = eng.rsplit(":", 1)
        try:
            extra.append(getattr(importlib.import_module(modname), fn)(tier=tier, seed=seed))
        except Exception as e:
            crashes.append((eng, "".join(traceback.format_exception(e))[-3000:]))

    # thorough tier: CPython cross-check of the interpreter on random concrete
    # inputs (disagreement = engine bug = exit 3) and mutation self-test
    # (sensitivity report only; never changes the exit code)
    crosscheck_info, mutation_info = None, None
    if tier == "thorough" and not os.environ.get("VERIF_NO_SELFTEST"):
        try:
            from pyvc.crosscheck import crosscheck_contract
            runs = 0
            bad = []
            for cid in cids:
                c = REGISTRY[cid]
                # only plain value contracts are meaningful to cross-check: the
                # others run against callee models, ghost recorders, loop cuts or
                # custom entries, which differ from a native run by design
                if (c.kind == "bounded" or c.native_modules or c.callees or c.loops or c.entry is not None
                        or c.native_entry is not None or c.setup is not None or c.outer_inputs is not None):
                    continue
                try:
                    n, b, _sk = crosscheck_contract(c, n=30, seed=seed)
                except Exception as e:
                    n, b = 0, []
                runs += n
                bad += b
            crosscheck_info = dict(concrete_runs_compared=runs, disagreements=bad[:10])
            for b in bad[:5]:
                crashes.append(("cross-check", b))
        except Exception as e:
            crosscheck_info = dict(error=str(e))
        mpath = os.path.join(VERIF, "mutants", f"{prop}.json")
        if os.path.exists(mpath) and not os.environ.get("VERIF_REPO"):
            try:
                from pyvc.mutate import run_mutant
                muts = json.load(open(mpath))
                from concurrent.futures import ThreadPoolExecutor
                def one(m):
                    os.environ["VERIF_NO_SELFTEST"] = "1"
                    st, _ = run_mutant(prop, m, repo=repo_root(), extra_args=("--jobs", "4"))
                    return m["id"], st, m.get("expect", "detected")
                with ThreadPoolExecutor(4) as ex:
                    rs = list(ex.map(one, muts))
                mutation_info = dict(mutants=len(rs), detected=sum(1 for _, st, _e in rs if st == "detected"),
                                     undecided=[i for i, st, _e in rs if st == "undecided"],
                                     missed=[i for i, st, e in rs if st == "missed" and e != "missed"],
                                     harmless_correctly_ignored=[i for i, st, e in rs if st == "missed" and e == "missed"],
                                     stale=[i for i, st, _e in rs if st == "stale"])
            except Exception as e:
                mutation_info = dict(error=str(e))

    known = load_known()
    baseline = load_baseline().get(prop, [])
    total = discharged = 0
    refuted, unknown, unsupported, errors = [], [], [], []
    functions, assumed = set(), set()
    solver_time = 0.0
    samples = []
    per_contract = {}
    clause_status = {}
    bounded_contracts = []
    clause_paths = {}
    for cid in cids:
        r = results.get(cid)
        if r is None:
            continue
        by = r.summary()
        per_contract[cid] = dict(paths=r.paths, normal_exits=r.normal_paths, exceptional_exits=r.exc_paths,
                                 obligations=len(r.obligations), **by)
        functions.add(cid)
        functions.update(f"(interpreted callee) {q}" for q in r.functions)
        assumed.update(r.assumed)
        solver_time += r.solver_time
        for u in sorted(set(r.unsupported)):
            unsupported.append((cid, u))
        for e in r.errors:
            errors.append((cid, e))
        if len(r.obligations) == 0 and not r.unsupported and not r.errors:
            errors.append((cid, "zero obligations generated"))
        if r.normal_paths + r.exc_paths > 0 and not r.canary_ok and r.normal_paths > 0:
            errors.append((cid, "canary failed: no feasible normal exit (vacuous precondition?)"))
        is_bounded = REGISTRY[cid].kind == "bounded"
        if is_bounded:
            bounded_contracts.append(dict(target=cid, bound=REGISTRY[cid].bounded or "; ".join(REGISTRY[cid].notes),
                                          cases=len(r.obligations),
                                          failed=sum(1 for o in r.obligations.values() if o.status != "discharged")))
        for (label, trace), ob in r.obligations.items():
            if not is_bounded:
                total += 1
            key = f"{cid} :: {label}"
            st = clause_status.get(key, "discharged")
            if ob.status == "discharged":
                if not is_bounded:
                    discharged += 1
            elif ob.status == "refuted":
                refuted.append((cid, label, trace, ob, r.choices.get((label, trace), [])))
                st = "refuted"
            else:
                unknown.append((cid, label, trace, ob))
                if st != "refuted":
                    st = "unknown"
            clause_status[key] = st
            clause_paths[key] = clause_paths.get(key, 0) + 1
            if len(samples) < 5 and ob.status == "discharged" and ob.time > 0:
                samples.append(f"{key} on path {list(trace)}: unsat in {ob.time:.3f}s")

    ex_total = ex_dis = 0
    ex_viol, ex_undec, bounded = [], [], list(bounded_contracts)
    for e in extra:
        ex_total += e.get("obligations", 0)
        ex_dis += e.get("discharged", 0)
        functions.update(e.get("functions", []))
        assumed.update(e.get("assumptions", []))
        samples.extend(e.get("samples", [])[:3])
        ex_viol.extend(e.get("violations", []))
        ex_undec.extend(e.get("undecided", []))
        bounded.extend(e.get("bounded", []))
        solver_time += e.get("solver_time_s", 0.0)
        for k, v in e.get("clauses", {}).items():
            clause_status[k] = v

    if args.write_baseline:
        bl = load_baseline()
        bl[prop] = sorted(k for k, v in clause_status.items() if v == "discharged")
        with open(os.path.join(VERIF, "baseline_obligations.json"), "w") as f:
            json.dump(bl, f, indent=1, sort_keys=True)
        print(f"baseline for {prop}: {len(bl[prop])} clauses")

    # ---- classify refutations: replay each distinct (contract, clause) once per model
    from pyvc.replay import concrete_run, concrete_search, write_replay
    violations, known_hits, artefacts = [], [], []
    seen_clause = {}
    tried = {}
    for cid, label, trace, ob, choices in refuted:
        c = REGISTRY[cid]
        key = f"{cid} :: {label}"
        key = f"{cid} :: {label}"
        if key in seen_clause and (cid, label) in tried and tried[(cid, label)] >= 6:
            continue
        tried[(cid, label)] = tried.get((cid, label), 0) + 1
        st, text, vals = concrete_search(c, ob.model or {}, choices, label)
        ob.model = vals
        kf = match_known(known, prop, cid, label, c, ob, choices)
        rec = dict(contract=cid, label=label, status=st, model=ob.model, choices=choices,
                   detail=ob.detail, text=text, known=kf)
        if kf is not None and st in ("confirmed", "not-replayable", "not-reproduced"):
            known_hits.append(rec)
            continue
        if st == "confirmed":
            if key in seen_clause:
                seen_clause[key]["more"] += 1
                continue
            rec["more"] = 0
            seen_clause[key] = rec
            violations.append(rec)
        elif key in baseline:
            if key + "#nf" in seen_clause:
                continue
            seen_clause[key + "#nf"] = rec
            rec["nofail"] = True
            violations.append(rec)
        else:
            artefacts.append(rec)

    rc = 0
    lines = []
    engine_known = []
    engine_known_all = []
    for kf_id in sorted({r["known"]["id"] for r in known_hits}):
        what = next(r["known"]["what"] for r in known_hits if r["known"]["id"] == kf_id)
        lines.append(f"KNOWN-FINDING: property={prop} {kf_id} {what}")
    for v in ex_viol:
        kf = None
        for k in known.get("known", []):
            if k["property"] == prop and k.get("obligation") == v.get("obligation"):
                kf = k
        if kf:
            lines.append(f"KNOWN-FINDING: property={prop} {kf['id']} {kf['what']}")
            engine_known.append(kf["id"])
            engine_known_all.append(v.get("obligation"))
            continue
        path = os.path.join(REPLAY_DIR(), prop, _slug(v["obligation"]) + ".py")
        if v.get("replay_script"):
            os.makedirs(os.path.dirname(path), exist_ok=True)
            with open(path, "w") as f:
                f.write(v["replay_script"])
            os.chmod(path, 0o755)
        tail = "" if v.get("confirmed") else " no-failing-input-found"
        lines.append(f"VIOLATION property={prop} replay={path}{tail}")
        rc = 1
    for rec in violations:
        c = REGISTRY[rec["contract"]]
        path = os.path.join(REPLAY_DIR(), prop, _slug(rec["contract"].split("::")[-1] + "__" + rec["label"]) + ".py")
        data = dict(property=prop, module=mod_of[rec["contract"]], contract=rec["contract"],
                    label=rec["label"], values=rec["model"] or {}, choices=rec["choices"],
                    solver=f"z3 sat (counter-model of path condition and negated clause); {rec['detail']}")
        write_replay(path, data)
        tail = " no-failing-input-found" if rec.get("nofail") else ""
        lines.append(f"VIOLATION property={prop} replay={path}{tail}")
        rc = 1
    undecided = len(unknown) + len(unsupported) + len(artefacts) + len(ex_undec)
    if rc == 0 and undecided:
        rc = 2
    if crashes or errors:
        rc = 3 if rc != 1 else 1

    wall = time.time() - t0
    # obligations that fail only because of a recorded known finding are
    # reported under known_findings, not counted as (un)discharged obligations
    n_known = sum(1 for r in known_hits if REGISTRY[r["contract"]].kind != "bounded") + len(engine_known_all)
    obligations = total + ex_total - n_known
    dis = discharged + ex_dis
    ev = dict(
        property_id=prop, tier=tier, seed=seed, level="proof",
        coverage=dict(
            obligations=obligations, discharged=dis,
            checker_cmd=f"./check {prop} --tier {tier}",
            trusted_base=["pyvc VC generator (/verif/pyvc)", "z3 %s" % _z3v(), "CPython 3.12 (hosts the interpreter and the replay)"],
            functions=sorted(functions),
            by_backend=_backends(results, dis),
            solver_time_s=round(solver_time, 3),
            per_contract=per_contract,
            clauses={k: dict(status=v, path_obligations=clause_paths.get(k, 0)) for k, v in sorted(clause_status.items())},
            undecided=[f"{c}: {l} (unknown)" for c, l, _, _ in unknown] + [f"{c}: unsupported: {u}" for c, u in unsupported]
                      + [f"{r['contract']}: {r['label']} refuted by the solver but {r['status']} on the real code" for r in artefacts]
                      + list(ex_undec),
            bounded=bounded,
            dropped_by_extraction=DROPPED,
            known_findings=sorted({r["known"]["id"] for r in known_hits} | set(engine_known)),
            known_finding_obligations=n_known,
            refuted=[f"{r['contract']} :: {r['label']} ({r['status']})" for r in violations],
            samples=samples or ["(no solver-checked obligation)"],
            cross_check=crosscheck_info, mutation_self_test=mutation_info,
            repo_root=repo_root(),
        ),
        assumptions=GLOBAL_ASSUMPTIONS + sorted(f"assumed contract: {a}" for a in assumed) + spec.get("assumptions", []),
        wall_s=round(wall, 2),
        violations=len([l for l in lines if l.startswith("VIOLATION")]),
    )
    evdir = os.environ.get("VERIF_EVIDENCE_DIR") or os.path.join(VERIF, "evidence")
    os.makedirs(evdir, exist_ok=True)
    with open(os.path.join(evdir, f"{prop}.json"), "w") as f:
        json.dump(ev, f, indent=1)

    print(f"[{prop}] {len(cids)} functions under contract, {obligations} obligations, {dis} discharged, "
          f"{len(refuted)} refuted, {len(unknown)} unknown, {len(unsupported)} unsupported, "
          f"solver {solver_time:.1f}s, wall {wall:.1f}s")
    if args.verbose:
        for cid, pc in sorted(per_contract.items()):
            print(f"   {cid}: {pc}")
    for c, u in unsupported:
        print(f"UNDECIDED {c}: unsupported: {u}")
    for c, l, _, ob in unknown[:20]:
        print(f"UNDECIDED {c}: {l}: solver returned unknown")
    for r in artefacts[:20]:
        print(f"UNDECIDED {r['contract']}: {r['label']}: refuted by solver, {r['status']} on real code; model={r['model']}")
        if args.verbose:
            print(r["text"])
    for u in ex_undec[:20]:
        print(f"UNDECIDED {u}")
    for c, e in errors + crashes:
        print(f"CHECKER-ERROR {c}: {e}")
    for l in dict.fromkeys(lines):
        print(l)
    return rc


def match_known(known, prop, cid, label, c, ob, choices):
    for k in known.get("known", []):
        if k["property"] != prop or k["contract"] != cid or k["label"] != label:
            continue
        pred = k.get("witness_class")
        if pred is None:
            return k
        # witness_class names a predicate in the contract module deciding
        # whether this counterexample belongs to the recorded finding
        mod = sys.modules[type(c).__module__] if False else None
        import importlib
        m = importlib.import_module(k["module"])
        try:
            if getattr(m, pred)(c, ob.model or {}, choices):
                return k
        except Exception:
            pass
    return None


def _backends(results, dis):
    fresh = sum(r.backends.get("z3-fresh", 0) for r in results.values())
    cli = sum(r.backends.get("cli", 0) for r in results.values())
    return {"z3 (incremental, python API)": max(0, dis - fresh - cli),
            "z3 (fresh solver)": fresh, "z3-new / cvc5 CLI": cli}


def _z3v():
    try:
        import z3
        return z3.get_version_string()
    except Exception:
        return "?"
