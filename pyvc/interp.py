"""AST interpreter over the *real* source of /repo (DESIGN 2.1-2.3).

The interpreter walks the `ast` of the file that CPython imported, so the text
that is verified is the text that runs.  Values are ordinary Python objects
(real LoopIR nodes, real dataclass instances, real lists) whose integer/boolean
leaves may be proxies from pyvc.sym.  Repository functions are always
interpreted (never executed natively with symbolic arguments); library and
builtin functions are called natively, which is sound because a proxy either
behaves like the number it stands for (forking on every truth test) or raises
`Unsupported`.

What is dropped from the source, exactly: docstrings, annotations, decorators
other than staticmethod/classmethod/property/cached_property/dataclass/extclass
(all of which are honoured through the real class objects), `print` calls.
Anything the interpreter does not model raises `Unsupported`, which makes the
target *undecided*, never "passed".
"""
from __future__ import annotations
import ast, builtins, functools, inspect, operator, os, sys, types
from . import sym as S
from .sym import SInt, SBool, SReal, OStr, Unsupported, PathInfeasible, PathEnd
from .srange import SRange


class ProgExc(Exception):
    """An exception raised by the program under verification."""
    def __init__(self, exc):
        super().__init__(repr(exc))
        self.exc = exc


class _Return(Exception):
    def __init__(self, v):
        self.v = v

class _Break(Exception):
    pass

class _Continue(Exception):
    pass


_INTERNAL = (Unsupported, PathInfeasible, PathEnd, ProgExc, _Return, _Break,
             _Continue, RecursionError, KeyboardInterrupt, MemoryError)


# ----------------------------------------------------------------------------
# source index

class SourceIndex:
    def __init__(self):
        self.files = {}

    def load(self, filename):
        if filename not in self.files:
            with open(filename) as f:
                src = f.read()
            tree = ast.parse(src, filename)
            by_line = {}
            parents = {}
            for node in ast.walk(tree):
                for ch in ast.iter_child_nodes(node):
                    parents[ch] = node
                if isinstance(node, (ast.FunctionDef, ast.Lambda)):
                    by_line.setdefault(node.lineno, []).append(node)
                    if isinstance(node, ast.FunctionDef):
                        for d in node.decorator_list:
                            by_line.setdefault(d.lineno, []).append(node)
            self.files[filename] = (tree, by_line, parents, src)
        return self.files[filename]

    def node_of(self, fn):
        code = fn.__code__
        tree, by_line, parents, _ = self.load(code.co_filename)
        cands = by_line.get(code.co_firstlineno, [])
        name = code.co_name
        out = []
        for n in cands:
            if isinstance(n, ast.Lambda):
                if name != "<lambda>":
                    continue
            elif n.name != name:
                continue
            if _argnames(n.args) == list(code.co_varnames[:code.co_argcount + code.co_kwonlyargcount]):
                out.append(n)
        seen = []
        for n in out:
            if n not in seen:
                seen.append(n)
        if len(seen) != 1:
            raise Unsupported(f"cannot locate source of {fn.__qualname__} "
                              f"({code.co_filename}:{code.co_firstlineno}): {len(seen)} candidates")
        return seen[0]

    def find_qualname(self, filename, qualname):
        """Locate a def by dotted path of class/function names."""
        tree, _, _, _ = self.load(filename)
        parts = qualname.split(".")
        body = tree.body
        node = None
        for p in parts:
            found = None
            for st in _walk_defs(body):
                if isinstance(st, (ast.FunctionDef, ast.ClassDef)) and st.name == p:
                    found = st
                    break
            if found is None:
                return None
            node = found
            body = found.body
        return node


def _walk_defs(body):
    """defs directly in a body, looking through if/try/with/for blocks."""
    for st in body:
        if isinstance(st, (ast.FunctionDef, ast.ClassDef)):
            yield st
        elif isinstance(st, (ast.If, ast.For, ast.While, ast.With, ast.Try)):
            for fld in ("body", "orelse", "finalbody"):
                yield from _walk_defs(getattr(st, fld, []) or [])
            for h in getattr(st, "handlers", []) or []:
                yield from _walk_defs(h.body)


def _idx_concrete(idx):
    if isinstance(idx, slice):
        return deep_concrete(idx.start) and deep_concrete(idx.stop) and deep_concrete(idx.step)
    return deep_concrete(idx)


def _argnames(a):
    return ([x.arg for x in a.posonlyargs] + [x.arg for x in a.args]
            + [x.arg for x in a.kwonlyargs])


def _has_yield(fnode):
    # memoised on the AST node: a real function is wrapped anew at every call
    r = getattr(fnode, "_pyvc_has_yield", None)
    if r is None:
        r = _has_yield_scan(fnode)
        try:
            fnode._pyvc_has_yield = r
        except Exception:
            pass
    return r


def _has_yield_scan(fnode):
    stack = list(fnode.body) if isinstance(fnode, ast.FunctionDef) else [fnode.body]
    while stack:
        n = stack.pop()
        if isinstance(n, (ast.Yield, ast.YieldFrom)):
            return True
        if isinstance(n, (ast.FunctionDef, ast.Lambda, ast.ClassDef)):
            continue
        stack.extend(ast.iter_child_nodes(n))
    return False


# ----------------------------------------------------------------------------
# frames and function values

class Frame:
    __slots__ = ("vars", "parent", "globals", "nonlocal_names", "global_names",
                 "func", "yields")

    def __init__(self, vars, parent, globals, func=None):
        self.vars = vars
        self.parent = parent
        self.globals = globals
        self.nonlocal_names = set()
        self.global_names = set()
        self.func = func
        self.yields = None

    def lookup(self, name):
        f = self
        while f is not None:
            if name in f.vars:
                return f.vars[name]
            f = f.parent
        g = self.globals
        if name in g:
            return g[name]
        b = g.get("__builtins__", builtins)
        if isinstance(b, dict):
            if name in b:
                return b[name]
        elif hasattr(b, name):
            return getattr(b, name)
        raise ProgExc(NameError(f"name '{name}' is not defined"))

    def store(self, name, val):
        if name in self.global_names:
            raise Unsupported(f"assignment to global '{name}'")
        if name in self.nonlocal_names:
            f = self.parent
            while f is not None:
                if name in f.vars:
                    f.vars[name] = val
                    return
                f = f.parent
            raise Unsupported(f"nonlocal '{name}' not found")
        self.vars[name] = val


class CellVars:
    """dict-like view of a real function's closure cells."""
    def __init__(self, fn):
        self.cells = dict(zip(fn.__code__.co_freevars, fn.__closure__ or ()))

    def __contains__(self, k):
        if k in self.cells:
            try:
                self.cells[k].cell_contents
                return True
            except ValueError:
                return False
        return False

    def __getitem__(self, k):
        return self.cells[k].cell_contents

    def __setitem__(self, k, v):
        self.cells[k].cell_contents = v


class IFunc:
    """A function value created by (or imported into) the interpreter."""
    def __init__(self, node, frame, globals, defaults, kwdefaults, name,
                 qualname, filename, real=None):
        self.node = node
        self.frame = frame
        self.globals = globals
        self.defaults = defaults
        self.kwdefaults = kwdefaults
        self.__name__ = name
        self.__qualname__ = qualname
        self.filename = filename
        self.real = real
        self.is_gen = _has_yield(node)

    def __get__(self, obj, objtype=None):
        if obj is None:
            return self
        return IBound(self, obj)

    def __repr__(self):
        return f"<IFunc {self.__qualname__}>"

    def __call__(self, *a, **k):
        # allows interpreted closures to be called from natively running
        # library code (e.g. sorted(key=...), ChainMap) and from contracts
        it = _ACTIVE[-1] if _ACTIVE else None
        if it is None:
            raise Unsupported("interpreted function called with no active interpreter")
        try:
            return it.call(self, list(a), dict(k))
        except ProgExc as e:
            raise e.exc


class IBound:
    def __init__(self, func, self_obj):
        self.__func__ = func
        self.__self__ = self_obj

    def __call__(self, *a, **k):
        return self.__func__(self.__self__, *a, **k)

    def __repr__(self):
        return f"<IBound {self.__func__.__qualname__}>"


_ACTIVE = []

_BINOPS = {
    ast.Add: operator.add, ast.Sub: operator.sub, ast.Mult: operator.mul,
    ast.Div: operator.truediv, ast.FloorDiv: operator.floordiv,
    ast.Mod: operator.mod, ast.Pow: operator.pow, ast.BitOr: operator.or_,
    ast.BitAnd: operator.and_, ast.BitXor: operator.xor,
    ast.LShift: operator.lshift, ast.RShift: operator.rshift,
    ast.MatMult: operator.matmul,
}
_IBINOPS = {
    ast.Add: operator.iadd, ast.Sub: operator.isub, ast.Mult: operator.imul,
    ast.Div: operator.itruediv, ast.FloorDiv: operator.ifloordiv,
    ast.Mod: operator.imod, ast.Pow: operator.ipow, ast.BitOr: operator.ior,
    ast.BitAnd: operator.iand, ast.BitXor: operator.ixor,
    ast.LShift: operator.ilshift, ast.RShift: operator.irshift,
}
_CMPOPS = {
    ast.Eq: operator.eq, ast.NotEq: operator.ne, ast.Lt: operator.lt,
    ast.LtE: operator.le, ast.Gt: operator.gt, ast.GtE: operator.ge,
}


def deep_concrete(v, depth=0, seen=None):
    """True iff no symbolic proxy is reachable from v (through containers and
    instance dictionaries / slots)."""
    if v is None or isinstance(v, (bool, int, float, complex, bytes, type,
                                   types.FunctionType, types.BuiltinFunctionType,
                                   types.ModuleType)):
        return True
    if isinstance(v, OStr):
        return False
    if isinstance(v, str):
        return True
    if isinstance(v, (SInt, SBool, SReal, Opaque)):
        return False
    if isinstance(v, (IFunc, IBound)):
        return False
    if depth > 12:
        return True
    if seen is None:
        seen = set()
    if id(v) in seen:
        return True
    seen.add(id(v))
    if isinstance(v, (list, tuple, set, frozenset)):
        return all(deep_concrete(x, depth + 1, seen) for x in v)
    if isinstance(v, dict):
        return all(deep_concrete(k, depth + 1, seen) and deep_concrete(x, depth + 1, seen)
                   for k, x in v.items())
    d = getattr(v, "__dict__", None)
    if isinstance(d, dict):
        if not all(deep_concrete(x, depth + 1, seen) for x in d.values()):
            return False
    for k in type(v).__mro__:
        for s in k.__dict__.get("__slots__", ()) if isinstance(k.__dict__.get("__slots__", ()), (tuple, list)) else ():
            try:
                x = object.__getattribute__(v, s)
            except AttributeError:
                continue
            if not deep_concrete(x, depth + 1, seen):
                return False
    return True


class Opaque:
    """Mixin for schematic leaves (an arbitrary node of some ADT sort).  The
    interpreter refuses to test an opaque leaf against a strict subclass of
    its sort: such a test means the code looks inside what the contract treats
    as arbitrary, and the shape enumeration must be refined."""
    pass


class Policy:
    """What to do at a call site.  Overridden by the driver."""
    def on_call(self, interp, fn, args, kwargs):
        """Return NotImplemented to proceed normally, else the call's result."""
        return NotImplemented

    def on_loop(self, interp, node, frame):
        return None

    def is_repo_file(self, filename):
        return False


class Interp:
    def __init__(self, policy: Policy, src_index=None, max_depth=60,
                 loop_unroll=64):
        self.policy = policy
        self.src = src_index or SourceIndex()
        self.max_depth = max_depth
        self.depth = 0
        self.loop_unroll = loop_unroll
        self.calls = []            # qualnames of interpreted repo functions
        self.steps = 0
        self.max_steps = 400000

    # ------------------------------------------------------------------ calls
    def wrap_real(self, fn):
        node = self.src.node_of(fn)
        frame = Frame(CellVars(fn), None, fn.__globals__) if fn.__closure__ else None
        return IFunc(node, frame, fn.__globals__, fn.__defaults__ or (),
                     fn.__kwdefaults__ or {}, fn.__name__, fn.__qualname__,
                     fn.__code__.co_filename, real=fn)

    def is_repo_fn(self, fn):
        return (isinstance(fn, types.FunctionType)
                and self.policy.is_repo_file(fn.__code__.co_filename))

    def call(self, fn, args, kwargs=None):
        kwargs = kwargs or {}
        _ACTIVE.append(self)
        try:
            return self._call(fn, args, kwargs)
        finally:
            _ACTIVE.pop()

    def _call(self, fn, args, kwargs):
        # unwrap bound methods
        if isinstance(fn, IBound):
            return self._call(fn.__func__, [fn.__self__] + list(args), kwargs)
        if isinstance(fn, types.MethodType):
            return self._call(fn.__func__, [fn.__self__] + list(args), kwargs)
        if isinstance(fn, functools.partial):
            return self._call(fn.func, list(fn.args) + list(args), {**fn.keywords, **kwargs})
        r = self.policy.on_call(self, fn, args, kwargs)
        if r is not NotImplemented:
            return r
        if isinstance(fn, IFunc):
            return self.call_ifunc(fn, args, kwargs)
        if self.is_repo_fn(fn):
            return self.call_ifunc(self.wrap_real(fn), args, kwargs)
        if isinstance(fn, type):
            return self.instantiate(fn, args, kwargs)
        return self.call_native(fn, args, kwargs)

    def call_native(self, fn, args, kwargs):
        sp = _SPECIAL.get(fn) if isinstance(fn, (types.BuiltinFunctionType, type)) else None
        if sp is not None:
            return sp(self, args, kwargs)
        try:
            return fn(*args, **kwargs)
        except _INTERNAL:
            raise
        except (TypeError, AttributeError) as e:
            conc = all(deep_concrete(a) for a in args) and all(deep_concrete(v) for v in kwargs.values())
            if not conc:
                raise Unsupported(f"native call {getattr(fn, '__qualname__', fn)} with symbolic "
                                  f"arguments failed: {type(e).__name__}: {e}")
            raise ProgExc(e)
        except Exception as e:
            raise ProgExc(e)

    def instantiate(self, cls, args, kwargs):
        sp = _SPECIAL.get(cls)
        if sp is not None:
            return sp(self, args, kwargs)
        init = None
        for k in cls.__mro__:
            if "__init__" in k.__dict__:
                init = k.__dict__["__init__"]
                break
        new = None
        for k in cls.__mro__:
            if "__new__" in k.__dict__:
                new = k.__dict__["__new__"]
                break
        if (self.is_repo_fn(init) and (new is object.__dict__["__new__"])
                and not issubclass(cls, BaseException)):
            obj = object.__new__(cls)
            self._call(init, [obj] + list(args), kwargs)
            return obj
        if _is_adt_class(cls):
            if not (all(deep_concrete(a) for a in args)
                    and all(deep_concrete(v) for v in kwargs.values())):
                return construct_adt(cls, args, kwargs)
        return self.call_native(cls, args, kwargs)

    def call_ifunc(self, f: IFunc, args, kwargs):
        self.depth += 1
        if self.depth > self.max_depth:
            self.depth -= 1
            raise Unsupported(f"call depth > {self.max_depth} at {f.__qualname__} "
                              "(recursive function needs a contract)")
        try:
            frame = Frame({}, f.frame, f.globals, f)
            self.bind(f, frame, args, kwargs)
            self.calls.append(f.__qualname__)
            node = f.node
            if isinstance(node, ast.Lambda):
                return self.ev(node.body, frame)
            if f.is_gen:
                frame.yields = []
                try:
                    self.exec_block(node.body, frame)
                except _Return:
                    pass
                return iter(frame.yields)
            try:
                self.exec_block(node.body, frame)
            except _Return as r:
                return r.v
            return None
        finally:
            self.depth -= 1

    def bind(self, f, frame, args, kwargs):
        a = f.node.args
        pos = list(a.posonlyargs) + list(a.args)
        names = [x.arg for x in pos]
        args = list(args)
        kwargs = dict(kwargs)
        v = frame.vars
        n = len(pos)
        if len(args) > n and a.vararg is None:
            raise ProgExc(TypeError(f"{f.__qualname__}() takes {n} positional arguments "
                                    f"but {len(args)} were given"))
        for nm, val in zip(names, args):
            v[nm] = val
        if a.vararg is not None:
            v[a.vararg.arg] = tuple(args[n:])
        nd = len(f.defaults)
        for i, nm in enumerate(names):
            if nm in v:
                if nm in kwargs:
                    raise ProgExc(TypeError(f"{f.__qualname__}() got multiple values for '{nm}'"))
                continue
            if nm in kwargs and i >= len(a.posonlyargs):
                v[nm] = kwargs.pop(nm)
            elif i >= n - nd:
                v[nm] = f.defaults[i - (n - nd)]
            else:
                raise ProgExc(TypeError(f"{f.__qualname__}() missing argument '{nm}'"))
        for x in a.kwonlyargs:
            nm = x.arg
            if nm in kwargs:
                v[nm] = kwargs.pop(nm)
            elif nm in f.kwdefaults:
                v[nm] = f.kwdefaults[nm]
            else:
                raise ProgExc(TypeError(f"{f.__qualname__}() missing keyword-only argument '{nm}'"))
        if a.kwarg is not None:
            v[a.kwarg.arg] = kwargs
        elif kwargs:
            raise ProgExc(TypeError(f"{f.__qualname__}() got unexpected keyword "
                                    f"arguments {sorted(kwargs)}"))

    # -------------------------------------------------------------- statements
    def exec_block(self, body, frame):
        for st in body:
            self.exec(st, frame)

    def exec(self, st, frame):
        self.steps += 1
        if self.steps > self.max_steps:
            raise Unsupported("step budget exceeded")
        m = getattr(self, "x_" + type(st).__name__, None)
        if m is None:
            raise Unsupported(f"statement {type(st).__name__} at line {st.lineno}")
        return m(st, frame)

    def x_Expr(self, st, frame):
        v = st.value
        if isinstance(v, ast.Constant):
            return  # docstring
        if isinstance(v, ast.Yield):
            frame.yields.append(self.ev(v.value, frame) if v.value else None)
            return
        if isinstance(v, ast.YieldFrom):
            frame.yields.extend(list(self.iterate(self.ev(v.value, frame))))
            return
        if (isinstance(v, ast.Call) and isinstance(v.func, ast.Name)
                and v.func.id == "print"):
            return
        self.ev(v, frame)

    def x_Pass(self, st, frame):
        pass

    def x_Return(self, st, frame):
        raise _Return(self.ev(st.value, frame) if st.value is not None else None)

    def x_Break(self, st, frame):
        raise _Break()

    def x_Continue(self, st, frame):
        raise _Continue()

    def x_Global(self, st, frame):
        frame.global_names.update(st.names)

    def x_Nonlocal(self, st, frame):
        frame.nonlocal_names.update(st.names)

    def x_Import(self, st, frame):
        for al in st.names:
            mod = __import__(al.name)
            if al.asname:
                for p in al.name.split(".")[1:]:
                    mod = getattr(mod, p)
                frame.store(al.asname, mod)
            else:
                frame.store(al.name.split(".")[0], mod)

    def x_ImportFrom(self, st, frame):
        import importlib
        pkg = frame.globals.get("__package__")
        name = "." * st.level + (st.module or "")
        mod = importlib.import_module(name, pkg) if st.level else importlib.import_module(name)
        for al in st.names:
            try:
                val = getattr(mod, al.name)
            except AttributeError:
                val = importlib.import_module(f"{mod.__name__}.{al.name}")
            frame.store(al.asname or al.name, val)

    def x_FunctionDef(self, st, frame):
        f = self.make_func(st, frame)
        val = f
        for d in reversed(st.decorator_list):
            dec = self.ev(d, frame)
            if dec in (staticmethod, classmethod, property):
                raise Unsupported("decorated nested def")
            if isinstance(dec, functools.partial) and dec.func is functools.update_wrapper:
                # @functools.wraps(f): metadata only.  (Running update_wrapper on an
                # interpreted function would copy the wrapped IFunc's __dict__ - its
                # code and closure - over the wrapper's.)
                continue
            val = self.call(dec, [val])
        frame.store(st.name, val)

    def make_func(self, node, frame):
        a = node.args
        defaults = tuple(self.ev(d, frame) for d in a.defaults)
        kwd = {x.arg: self.ev(d, frame) for x, d in zip(a.kwonlyargs, a.kw_defaults)
               if d is not None}
        name = node.name if isinstance(node, ast.FunctionDef) else "<lambda>"
        outer = frame.func.__qualname__ + ".<locals>." if frame.func else ""
        fn = frame.func.filename if frame.func else "<?>"
        return IFunc(node, frame, frame.globals, defaults, kwd, name, outer + name, fn)

    def x_Assign(self, st, frame):
        v = self.ev(st.value, frame)
        for t in st.targets:
            self.assign(t, v, frame)

    def x_AnnAssign(self, st, frame):
        if st.value is not None:
            self.assign(st.target, self.ev(st.value, frame), frame)

    def x_AugAssign(self, st, frame):
        t = st.target
        op = _IBINOPS.get(type(st.op))
        if op is None:
            raise Unsupported(f"augmented {type(st.op).__name__}")
        if isinstance(t, ast.Name):
            cur = frame.lookup(t.id)
            frame.store(t.id, self.binop(op, cur, self.ev(st.value, frame)))
        elif isinstance(t, ast.Attribute):
            obj = self.ev(t.value, frame)
            cur = self.getattr(obj, t.attr)
            self.setattr(obj, t.attr, self.binop(op, cur, self.ev(st.value, frame)))
        elif isinstance(t, ast.Subscript):
            obj = self.ev(t.value, frame)
            idx = self.ev_index(t.slice, frame)
            cur = self.getitem(obj, idx)
            self.setitem(obj, idx, self.binop(op, cur, self.ev(st.value, frame)))
        else:
            raise Unsupported("augassign target")

    def assign(self, t, v, frame):
        if isinstance(t, ast.Name):
            frame.store(t.id, v)
        elif isinstance(t, (ast.Tuple, ast.List)):
            vals = list(self.iterate(v))
            star = [i for i, e in enumerate(t.elts) if isinstance(e, ast.Starred)]
            if star:
                i = star[0]
                after = len(t.elts) - i - 1
                if len(vals) < len(t.elts) - 1:
                    raise ProgExc(ValueError("not enough values to unpack"))
                for e, x in zip(t.elts[:i], vals[:i]):
                    self.assign(e, x, frame)
                self.assign(t.elts[i].value, vals[i:len(vals) - after], frame)
                for e, x in zip(t.elts[i + 1:], vals[len(vals) - after:]):
                    self.assign(e, x, frame)
            else:
                if len(vals) != len(t.elts):
                    raise ProgExc(ValueError(
                        f"cannot unpack {len(vals)} values into {len(t.elts)} targets"))
                for e, x in zip(t.elts, vals):
                    self.assign(e, x, frame)
        elif isinstance(t, ast.Attribute):
            self.setattr(self.ev(t.value, frame), t.attr, v)
        elif isinstance(t, ast.Subscript):
            self.setitem(self.ev(t.value, frame), self.ev_index(t.slice, frame), v)
        else:
            raise Unsupported(f"assignment target {type(t).__name__}")

    def x_Delete(self, st, frame):
        for t in st.targets:
            if isinstance(t, ast.Subscript):
                obj = self.ev(t.value, frame)
                idx = self.ev_index(t.slice, frame)
                self.native(operator.delitem, obj, idx)
            elif isinstance(t, ast.Name):
                if t.id in frame.vars:
                    del frame.vars[t.id]
                else:
                    raise Unsupported("del of non-local name")
            else:
                raise Unsupported("del target")

    def x_If(self, st, frame):
        if self.truthy(self.ev(st.test, frame)):
            self.exec_block(st.body, frame)
        else:
            self.exec_block(st.orelse, frame)

    def x_Assert(self, st, frame):
        if not self.truthy(self.ev(st.test, frame)):
            msg = self.ev(st.msg, frame) if st.msg is not None else ""
            raise ProgExc(AssertionError(msg))

    def x_Raise(self, st, frame):
        if st.exc is None:
            cur = frame.lookup("__pyvc_exc__") if self._has(frame, "__pyvc_exc__") else None
            if cur is None:
                raise Unsupported("bare raise outside handler")
            raise ProgExc(cur)
        e = self.ev(st.exc, frame)
        if isinstance(e, type):
            e = self.call(e, [])
        if st.cause is not None:
            c = self.ev(st.cause, frame)
            try:
                e.__cause__ = c
            except Exception:
                pass
        if not isinstance(e, BaseException):
            raise ProgExc(TypeError("exceptions must derive from BaseException"))
        raise ProgExc(e)

    def _has(self, frame, name):
        f = frame
        while f is not None:
            if name in f.vars:
                return True
            f = f.parent
        return False

    def x_Try(self, st, frame):
        try:
            try:
                self.exec_block(st.body, frame)
            except ProgExc as pe:
                for h in st.handlers:
                    if h.type is None:
                        match = True
                    else:
                        ty = self.ev(h.type, frame)
                        match = isinstance(pe.exc, ty)
                    if match:
                        if h.name:
                            frame.vars[h.name] = pe.exc
                        old = frame.vars.get("__pyvc_exc__")
                        frame.vars["__pyvc_exc__"] = pe.exc
                        try:
                            self.exec_block(h.body, frame)
                        finally:
                            frame.vars["__pyvc_exc__"] = old
                        break
                else:
                    raise
            else:
                self.exec_block(st.orelse, frame)
        finally:
            if st.finalbody:
                self.exec_block(st.finalbody, frame)

    def x_For(self, st, frame):
        it = self.ev(st.iter, frame)
        cut = self.policy.on_loop(self, st, frame)
        if cut is not None:
            return cut(self, st, frame, it)
        broke = False
        for x in self.iterate(it):
            self.assign(st.target, x, frame)
            try:
                self.exec_block(st.body, frame)
            except _Break:
                broke = True
                break
            except _Continue:
                continue
        if not broke:
            self.exec_block(st.orelse, frame)

    def x_While(self, st, frame):
        cut = self.policy.on_loop(self, st, frame)
        if cut is not None:
            return cut(self, st, frame, None)
        n = 0
        broke = False
        while self.truthy(self.ev(st.test, frame)):
            n += 1
            if n > self.loop_unroll:
                raise Unsupported(f"while loop at line {st.lineno} exceeds unroll bound "
                                  f"{self.loop_unroll} (needs an invariant)")
            try:
                self.exec_block(st.body, frame)
            except _Break:
                broke = True
                break
            except _Continue:
                continue
        if not broke:
            self.exec_block(st.orelse, frame)

    def x_With(self, st, frame):
        raise Unsupported(f"with statement at line {st.lineno}")

    def x_ClassDef(self, st, frame):
        raise Unsupported(f"class definition inside function at line {st.lineno}")

    def x_Match(self, st, frame):
        raise Unsupported(f"match statement at line {st.lineno}")

    # ------------------------------------------------------------- expressions
    def ev(self, e, frame):
        m = getattr(self, "e_" + type(e).__name__, None)
        if m is None:
            raise Unsupported(f"expression {type(e).__name__} at line {getattr(e, 'lineno', '?')}")
        return m(e, frame)

    def e_Constant(self, e, frame):
        return e.value

    def e_Name(self, e, frame):
        return frame.lookup(e.id)

    def e_NamedExpr(self, e, frame):
        v = self.ev(e.value, frame)
        frame.store(e.target.id, v)
        return v

    def e_Attribute(self, e, frame):
        return self.getattr(self.ev(e.value, frame), e.attr)

    def e_Subscript(self, e, frame):
        return self.getitem(self.ev(e.value, frame), self.ev_index(e.slice, frame))

    def ev_index(self, s, frame):
        if isinstance(s, ast.Slice):
            return slice(self.ev(s.lower, frame) if s.lower else None,
                         self.ev(s.upper, frame) if s.upper else None,
                         self.ev(s.step, frame) if s.step else None)
        if isinstance(s, ast.Tuple):
            return tuple(self.ev_index(x, frame) for x in s.elts)
        return self.ev(s, frame)

    def e_Slice(self, e, frame):
        return self.ev_index(e, frame)

    def e_Tuple(self, e, frame):
        return tuple(self.ev_elts(e.elts, frame))

    def e_List(self, e, frame):
        return self.ev_elts(e.elts, frame)

    def e_Set(self, e, frame):
        return self.native(set, self.ev_elts(e.elts, frame))

    def ev_elts(self, elts, frame):
        out = []
        for x in elts:
            if isinstance(x, ast.Starred):
                out.extend(self.iterate(self.ev(x.value, frame)))
            else:
                out.append(self.ev(x, frame))
        return out

    def e_Dict(self, e, frame):
        d = {}
        for k, v in zip(e.keys, e.values):
            if k is None:
                self.native(d.update, self.ev(v, frame))
            else:
                kk = self.ev(k, frame)
                vv = self.ev(v, frame)
                self.native(operator.setitem, d, kk, vv)
        return d

    def e_JoinedStr(self, e, frame):
        parts = []
        opaque = False
        for p in e.values:
            if isinstance(p, ast.Constant):
                parts.append(p.value)
            else:
                v = self.ev(p.value, frame)
                spec = self.ev(p.format_spec, frame) if p.format_spec else ""
                if not deep_concrete(v):
                    opaque = True
                    parts.append("<?>")
                    continue
                if p.conversion == ord("r"):
                    v = repr(v)
                elif p.conversion == ord("s"):
                    v = self.to_str(v)
                elif p.conversion == ord("a"):
                    v = ascii(v)
                s = self.format(v, spec)
                if isinstance(s, OStr):
                    opaque = True
                parts.append(s)
        r = "".join(parts)
        return OStr(r) if opaque else r

    def e_FormattedValue(self, e, frame):
        return self.format(self.ev(e.value, frame), "")

    def to_str(self, v):
        if isinstance(v, Opaque):
            # a schematic leaf prints as its own unique name: two leaves print
            # alike only if they are the same object (contracts that rely on
            # this state it as an assumption)
            return repr(v)
        if deep_concrete(v):
            st = type(v).__dict__.get("__str__") if not isinstance(v, type) else None
            if st is not None and self.is_repo_fn(st):
                return self.call(st, [v])
            return self.native(str, v)
        return OStr("<?>")

    def format(self, v, spec):
        if not deep_concrete(v):
            return OStr("<?>")
        if spec == "":
            return self.to_str(v)
        return self.native(format, v, spec)

    def e_BinOp(self, e, frame):
        op = _BINOPS.get(type(e.op))
        if op is None:
            raise Unsupported(f"operator {type(e.op).__name__}")
        return self.binop(op, self.ev(e.left, frame), self.ev(e.right, frame))

    _DUNDER = {
        operator.add: ("__add__", "__radd__"), operator.sub: ("__sub__", "__rsub__"),
        operator.mul: ("__mul__", "__rmul__"), operator.truediv: ("__truediv__", "__rtruediv__"),
        operator.floordiv: ("__floordiv__", "__rfloordiv__"), operator.mod: ("__mod__", "__rmod__"),
        operator.or_: ("__or__", "__ror__"), operator.and_: ("__and__", "__rand__"),
        operator.pow: ("__pow__", "__rpow__"), operator.xor: ("__xor__", "__rxor__"),
        operator.matmul: ("__matmul__", "__rmatmul__"),
        operator.lshift: ("__lshift__", "__rlshift__"), operator.rshift: ("__rshift__", "__rrshift__"),
        operator.iadd: ("__add__", "__radd__"), operator.isub: ("__sub__", "__rsub__"),
        operator.imul: ("__mul__", "__rmul__"), operator.ior: ("__or__", "__ror__"),
        operator.iand: ("__and__", "__rand__"), operator.ifloordiv: ("__floordiv__", "__rfloordiv__"),
        operator.imod: ("__mod__", "__rmod__"), operator.itruediv: ("__truediv__", "__rtruediv__"),
        operator.eq: ("__eq__", "__eq__"), operator.ne: ("__ne__", "__ne__"),
        operator.lt: ("__lt__", "__gt__"), operator.le: ("__le__", "__ge__"),
        operator.gt: ("__gt__", "__lt__"), operator.ge: ("__ge__", "__le__"),
    }

    def _repo_dunder(self, v, name):
        if isinstance(v, (SInt, SBool, SReal)) or v is None:
            return None
        for k in type(v).__mro__:
            if name in k.__dict__:
                d = k.__dict__[name]
                return d if self.is_repo_fn(d) else None
        return None

    def binop(self, op, a, b):
        """Binary operator with Python's dispatch; repository-defined dunder
        methods are interpreted, everything else runs natively on proxies."""
        names = self._DUNDER.get(op)
        if names is not None:
            fa = self._repo_dunder(a, names[0])
            fb = self._repo_dunder(b, names[1])
            if fa is not None or fb is not None:
                # Python's rule: the right operand goes first only if its type
                # is a proper subclass of the left operand's type.
                order = []
                if (fb is not None and type(b) is not type(a)
                        and isinstance(b, type(a)) and not isinstance(a, (SInt, SBool))):
                    order = [("r", fb), ("l", fa)]
                else:
                    order = [("l", fa), ("r", fb)]
                for side, f in order:
                    if side == "l":
                        if f is not None:
                            r = self.call(f, [a, b])
                        else:
                            r = self._native_dunder(a, names[0], b)
                    else:
                        if f is not None:
                            r = self.call(f, [b, a])
                        else:
                            r = self._native_dunder(b, names[1], a)
                    if r is not NotImplemented:
                        return r
                if op is operator.eq:
                    return a is b
                if op is operator.ne:
                    return a is not b
                raise ProgExc(TypeError(f"unsupported operand types for {op.__name__}: "
                                        f"{type(a).__name__} and {type(b).__name__}"))
        return self.native(op, a, b)

    def _native_dunder(self, v, name, other):
        if isinstance(v, bool) or v is None:
            m = getattr(type(v), name, None)
        else:
            m = getattr(type(v), name, None)
        if m is None:
            return NotImplemented
        try:
            return m(v, other)
        except _INTERNAL:
            raise
        except TypeError:
            return NotImplemented

    def native(self, fn, *args):
        try:
            return fn(*args)
        except _INTERNAL:
            raise
        except Exception as e:
            if isinstance(e, TypeError) and not all(deep_concrete(a) for a in args):
                raise Unsupported(f"native {getattr(fn, '__name__', fn)} on symbolic values: {e}")
            raise ProgExc(e)

    def e_UnaryOp(self, e, frame):
        v = self.ev(e.operand, frame)
        if isinstance(e.op, ast.Not):
            if isinstance(v, SBool):
                return S.Not(v)
            if isinstance(v, SInt):
                return v == 0
            return not self.truthy(v)
        if isinstance(e.op, ast.USub):
            f = self._repo_dunder(v, "__neg__")
            if f is not None:
                return self.call(f, [v])
            return self.native(operator.neg, v)
        if isinstance(e.op, ast.UAdd):
            return self.native(operator.pos, v)
        if isinstance(e.op, ast.Invert):
            return self.native(operator.invert, v)
        raise Unsupported("unary op")

    def e_BoolOp(self, e, frame):
        is_and = isinstance(e.op, ast.And)
        v = None
        for i, x in enumerate(e.values):
            v = self.ev(x, frame)
            if i == len(e.values) - 1:
                return v
            t = self.truthy(v)
            if is_and and not t:
                return v if not isinstance(v, (SBool, SInt)) else (False if isinstance(v, SBool) else 0)
            if not is_and and t:
                return v if not isinstance(v, SBool) else True
        return v

    def e_Compare(self, e, frame):
        left = self.ev(e.left, frame)
        res = True
        for i, (op, rx) in enumerate(zip(e.ops, e.comparators)):
            right = self.ev(rx, frame)
            r = self.compare(op, left, right)
            if i == len(e.ops) - 1:
                if res is True:
                    return r
                return r if self.truthy(r) else r
            if not self.truthy(r):
                return r if not isinstance(r, SBool) else False
            left = right
        return res

    def compare(self, op, a, b):
        if isinstance(op, (ast.Is, ast.IsNot)):
            r = self.identical(a, b)
            return r if isinstance(op, ast.Is) else (not r)
        if isinstance(op, (ast.In, ast.NotIn)):
            r = self.contains(b, a)
            if isinstance(op, ast.In):
                return r
            return S.Not(r) if isinstance(r, SBool) else (not r)
        return self.binop(_CMPOPS[type(op)], a, b)

    def identical(self, a, b):
        for x, y in ((a, b), (b, a)):
            if isinstance(x, (SInt, SBool, SReal)):
                if y is None or isinstance(y, (type, str)):
                    return False
                if isinstance(x, SBool) and isinstance(y, bool):
                    raise Unsupported("`is True/False` on a symbolic bool")
                if isinstance(y, (int, SInt, SBool)):
                    raise Unsupported("identity test on symbolic numbers")
                return False
        return a is b

    def contains(self, container, item):
        f = self._repo_dunder(container, "__contains__")
        if f is not None:
            return self.call(f, [container, item])
        if isinstance(container, SRange) or (isinstance(container, range) and container.step == 1
                                             and isinstance(item, (SInt, SBool))):
            return SRange.of(container).contains(item)
        if isinstance(container, (list, tuple)) and not deep_concrete(item) or \
                (isinstance(container, (list, tuple)) and not deep_concrete(container)):
            # element-wise ==, through interpreted __eq__ where the repo defines one
            for x in container:
                if x is item:
                    return True
                if self.truthy(self.binop(operator.eq, x, item)):
                    return True
            return False
        return self.native(operator.contains, container, item)

    def e_IfExp(self, e, frame):
        if self.truthy(self.ev(e.test, frame)):
            return self.ev(e.body, frame)
        return self.ev(e.orelse, frame)

    def e_Lambda(self, e, frame):
        return self.make_func(e, frame)

    def e_Starred(self, e, frame):
        raise Unsupported("starred expression")

    def e_Call(self, e, frame):
        fx = e.func
        # zero-argument super()
        if isinstance(fx, ast.Name) and fx.id == "super" and not e.args and not e.keywords:
            cls = frame.lookup("__class__")
            f = frame
            while f.func is None or isinstance(f.func.node, ast.Lambda):
                f = f.parent
            first = f.func.node.args.args[0].arg
            return super(cls, f.vars[first])
        fn = self.ev(fx, frame)
        args = []
        for a in e.args:
            if isinstance(a, ast.Starred):
                args.extend(self.iterate(self.ev(a.value, frame)))
            else:
                args.append(self.ev(a, frame))
        kwargs = {}
        for k in e.keywords:
            if k.arg is None:
                kwargs.update(self.ev(k.value, frame))
            else:
                kwargs[k.arg] = self.ev(k.value, frame)
        return self.call(fn, args, kwargs)

    def comp(self, gens, frame, emit):
        def rec(i, fr):
            if i == len(gens):
                emit(fr)
                return
            g = gens[i]
            it = self.ev(g.iter, fr)
            for x in self.iterate(it):
                self.assign(g.target, x, fr)
                if all(self.truthy(self.ev(c, fr)) for c in g.ifs):
                    rec(i + 1, fr)
        fr = Frame({}, frame, frame.globals, None)
        rec(0, fr)

    def e_ListComp(self, e, frame):
        out = []
        self.comp(e.generators, frame, lambda fr: out.append(self.ev(e.elt, fr)))
        return out

    def e_GeneratorExp(self, e, frame):
        out = []
        self.comp(e.generators, frame, lambda fr: out.append(self.ev(e.elt, fr)))
        return iter(out)

    def e_SetComp(self, e, frame):
        out = []
        self.comp(e.generators, frame, lambda fr: out.append(self.ev(e.elt, fr)))
        return self.native(set, out)

    def e_DictComp(self, e, frame):
        out = {}
        def emit(fr):
            k = self.ev(e.key, fr)
            v = self.ev(e.value, fr)
            self.native(operator.setitem, out, k, v)
        self.comp(e.generators, frame, emit)
        return out

    # ----------------------------------------------------------------- helpers
    def truthy(self, v):
        if isinstance(v, bool):
            return v
        if isinstance(v, (SBool, SInt, SReal)):
            return bool(v)
        if v is None:
            return False
        for nm in ("__bool__", "__len__"):
            f = self._repo_dunder(v, nm)
            if f is not None:
                return self.truthy(self.call(f, [v]))
        return self.native(bool, v)

    def iterate(self, v):
        if isinstance(v, (list, tuple, dict, set, frozenset, str, range)):
            return iter(list(v)) if isinstance(v, (list, dict, set)) else iter(v)
        f = self._repo_dunder(v, "__iter__")
        if f is not None:
            return self.call(f, [v])
        if isinstance(v, SRange):
            # decide the length on this path (fork), up to the unroll bound
            n = v.length()
            for k in range(self.loop_unroll + 1):
                if S.cur().branch(S.liftb(n == k)):
                    return iter([v.start + j for j in range(k)])
            raise Unsupported(f"iteration over a symbolic range longer than {self.loop_unroll}")
        if isinstance(v, (SInt, SBool)):
            raise ProgExc(TypeError("int object is not iterable"))
        return self.native(iter, v)

    def getattr(self, obj, name):
        if isinstance(obj, (SInt, SBool, SReal)):
            raise Unsupported(f"attribute {name} of symbolic number")
        if not isinstance(obj, type) and not isinstance(obj, types.ModuleType):
            for k in type(obj).__mro__:
                if name in k.__dict__:
                    d = k.__dict__[name]
                    if isinstance(d, property) and self.is_repo_fn(d.fget):
                        return self.call(d.fget, [obj])
                    if isinstance(d, functools.cached_property) and self.is_repo_fn(d.func):
                        dd = getattr(obj, "__dict__", {})
                        if name in dd:
                            return dd[name]
                        val = self.call(d.func, [obj])
                        dd[name] = val
                        return val
                    if isinstance(d, IFunc):
                        return IBound(d, obj)
                    break
        try:
            return getattr(obj, name)
        except _INTERNAL:
            raise
        except AttributeError as e:
            ga = None
            if not isinstance(obj, type):
                for k in type(obj).__mro__:
                    if "__getattr__" in k.__dict__:
                        ga = k.__dict__["__getattr__"]
                        break
            if ga is not None and self.is_repo_fn(ga):
                return self.call(ga, [obj, name])
            raise ProgExc(e)
        except Exception as e:
            raise ProgExc(e)

    def setattr(self, obj, name, val):
        if not isinstance(obj, type):
            for k in type(obj).__mro__:
                if "__setattr__" in k.__dict__:
                    d = k.__dict__["__setattr__"]
                    if self.is_repo_fn(d):
                        return self.call(d, [obj, name, val])
                    break
        try:
            setattr(obj, name, val)
        except _INTERNAL:
            raise
        except Exception as e:
            raise ProgExc(e)

    def getitem(self, obj, idx):
        f = self._repo_dunder(obj, "__getitem__")
        if f is not None:
            return self.call(f, [obj, idx])
        if isinstance(idx, (SInt, SBool)) and isinstance(obj, (list, tuple, str)):
            n = len(obj)
            for k in range(n):
                if S.cur().branch(S.liftb(S.Or(idx == k, idx == k - n))):
                    return obj[k]
            raise ProgExc(IndexError("list index out of range"))
        if isinstance(obj, SRange) or (isinstance(obj, range) and obj.step == 1
                                       and not _idx_concrete(idx)):
            return self.native(operator.getitem, SRange.of(obj), idx)
        if isinstance(idx, slice) and not (deep_concrete(idx.start) and deep_concrete(idx.stop)
                                           and deep_concrete(idx.step)):
            if isinstance(obj, (list, tuple)) and idx.step in (None, 1):
                # concrete-length sequence, symbolic bounds: fork on the
                # (clipped) value of each bound
                n = len(obj)
                lo = self._slice_bound(idx.start, n, 0)
                hi = self._slice_bound(idx.stop, n, n)
                return obj[lo:hi]
            raise Unsupported("slice with symbolic bounds")
        return self.native(operator.getitem, obj, idx)

    def _slice_bound(self, b, n, default):
        if b is None:
            return default
        if isinstance(b, int) and not isinstance(b, bool):
            return b
        if not isinstance(b, (SInt, SBool)):
            raise ProgExc(TypeError("slice indices must be integers or None"))
        ctx = S.cur()
        if n == 0:
            return 0
        for k in range(n + 1):
            # Python: b<0 -> max(b+n,0), else min(b,n)
            if k == 0:
                c = S.Or(b == 0, b <= -n)
            elif k == n:
                c = b >= n
            else:
                c = S.Or(b == k, b == k - n)
            if ctx.branch(S.liftb(c)):
                return k
        raise PathInfeasible()

    def setitem(self, obj, idx, val):
        f = self._repo_dunder(obj, "__setitem__")
        if f is not None:
            return self.call(f, [obj, idx, val])
        if isinstance(idx, (SInt, SBool)) and isinstance(obj, list):
            n = len(obj)
            for k in range(n):
                if S.cur().branch(S.liftb(S.Or(idx == k, idx == k - n))):
                    obj[k] = val
                    return
            raise ProgExc(IndexError("list assignment index out of range"))
        if isinstance(idx, slice) and not deep_concrete(idx):
            raise Unsupported("slice with symbolic bounds")
        return self.native(operator.setitem, obj, idx, val)


# ----------------------------------------------------------------------------
# ADT construction with symbolic fields (what the generated __init__ does,
# minus validation: assign fields, copying list-valued ones)

def _is_adt_class(cls):
    try:
        from asdl_adt.adt import _AsdlAdtBase
    except Exception:
        return False
    return isinstance(cls, type) and issubclass(cls, _AsdlAdtBase)


def construct_adt(cls, args, kwargs):
    init = cls.__init__
    sig = inspect.signature(init)
    obj = object.__new__(cls)
    ba = sig.bind(obj, *args, **kwargs)
    for name, v in list(ba.arguments.items())[1:]:
        if isinstance(v, list):
            v = list(v)
        object.__setattr__(obj, name, v)
    return obj


# ----------------------------------------------------------------------------
# builtins that need to know about proxies

def _sp_isinstance(it, args, kw):
    v, c = args
    return py_isinstance(v, c)

def py_isinstance(v, c):
    if isinstance(c, tuple):
        return any(py_isinstance(v, x) for x in c)
    if isinstance(v, SBool):
        return c in (bool, int, object)
    if isinstance(v, SInt):
        return c in (int, object)
    if isinstance(v, SReal):
        return c in (float, object)
    if isinstance(v, OStr):
        return c in (str, object)
    if isinstance(v, SRange):
        return isinstance(c, type) and (issubclass(range, c) or c is SRange)
    if hasattr(type(v), "_pyvc_isinstance"):
        return v._pyvc_isinstance(c)
    if isinstance(v, Opaque):
        sort = v._pyvc_sort
        if isinstance(c, type) and issubclass(sort, c):
            return True
        if isinstance(c, type) and any(issubclass(c, n) for n in getattr(v, "_pyvc_not", ())):
            return False
        if isinstance(c, type) and issubclass(c, sort):
            raise Unsupported(f"code inspects the constructor of a schematic "
                              f"{sort.__name__} leaf (isinstance {c.__name__})")
        return False
    return isinstance(v, c)

def _sp_type(it, args, kw):
    if len(args) != 1:
        return type(*args, **kw)
    v = args[0]
    if isinstance(v, SBool):
        return bool
    if isinstance(v, SInt):
        return int
    if isinstance(v, SReal):
        return float
    if isinstance(v, OStr):
        return str
    if isinstance(v, SRange):
        return range
    if isinstance(v, Opaque):
        raise Unsupported("type() of a schematic leaf")
    return type(v)

def _sp_int(it, args, kw):
    if not args:
        return 0
    v = args[0]
    if isinstance(v, SInt):
        return v
    if isinstance(v, SBool):
        return v._asint()
    if isinstance(v, SReal):
        raise Unsupported("int() of symbolic real")
    return it.native(int, *args)

def _sp_bool(it, args, kw):
    if not args:
        return False
    v = args[0]
    if isinstance(v, SBool):
        return v
    if isinstance(v, SInt):
        return v != 0
    return it.truthy(v)

def _sp_float(it, args, kw):
    if args and isinstance(args[0], (SInt, SBool)):
        return SReal(S.z3.ToReal(S.lift(args[0])))
    if args and isinstance(args[0], SReal):
        return args[0]
    return it.native(float, *args)

def _sp_str(it, args, kw):
    if not args:
        return ""
    return it.to_str(args[0])

def _sp_repr(it, args, kw):
    if deep_concrete(args[0]):
        return it.native(repr, args[0])
    return OStr("<?>")

def _sp_min(it, args, kw):
    return _minmax(it, args, kw, True)

def _sp_max(it, args, kw):
    return _minmax(it, args, kw, False)

def _minmax(it, args, kw, is_min):
    if kw.get("key") is not None or "default" in kw:
        vals = list(it.iterate(args[0])) if len(args) == 1 else list(args)
        if all(deep_concrete(v) for v in vals):
            return it.native(min if is_min else max, *args, **kw) if False else \
                   (min if is_min else max)(*args, **kw)
        raise Unsupported("min/max with key on symbolic values")
    vals = list(it.iterate(args[0])) if len(args) == 1 else list(args)
    if not vals:
        raise ProgExc(ValueError("min()/max() arg is an empty sequence"))
    if all(isinstance(v, (int, SInt, SBool)) for v in vals) and not all(isinstance(v, int) for v in vals):
        r = vals[0]
        for v in vals[1:]:
            r = S.Min(r, v) if is_min else S.Max(r, v)
        return r
    r = vals[0]
    for v in vals[1:]:
        lt = it.binop(operator.lt, v, r) if is_min else it.binop(operator.gt, v, r)
        if it.truthy(lt):
            r = v
    return r

def _sp_abs(it, args, kw):
    return it.native(abs, args[0])

def _sp_len(it, args, kw):
    v = args[0]
    f = it._repo_dunder(v, "__len__")
    if f is not None:
        return it.call(f, [v])
    if isinstance(v, SRange):
        return v.length()
    if hasattr(type(v), "_pyvc_len"):
        return v._pyvc_len()            # contract-side model of a sequence of symbolic length
    return it.native(len, v)

def _sp_sum(it, args, kw):
    vals = list(it.iterate(args[0]))
    r = args[1] if len(args) > 1 else kw.get("start", 0)
    for v in vals:
        r = it.binop(operator.add, r, v)
    return r

def _sp_all(it, args, kw):
    for v in it.iterate(args[0]):
        if not it.truthy(v):
            return False
    return True

def _sp_any(it, args, kw):
    for v in it.iterate(args[0]):
        if it.truthy(v):
            return True
    return False

def _sp_range(it, args, kw):
    if any(isinstance(a, (SInt, SBool)) for a in args):
        if len(args) <= 2 or (isinstance(args[2], int) and args[2] == 1):
            return SRange(*args[:2])
        raise Unsupported("range() over a symbolic bound with a step")
    return it.native(range, *args)

def _sp_getattr(it, args, kw):
    if len(args) == 3:
        try:
            return it.getattr(args[0], args[1])
        except ProgExc as e:
            if isinstance(e.exc, AttributeError):
                return args[2]
            raise
    return it.getattr(args[0], args[1])

def _sp_hasattr(it, args, kw):
    try:
        it.getattr(args[0], args[1])
        return True
    except ProgExc as e:
        if isinstance(e.exc, AttributeError):
            return False
        raise

def _sp_setattr(it, args, kw):
    return it.setattr(*args)

def _sp_sorted(it, args, kw):
    vals = list(it.iterate(args[0]))
    key = kw.get("key")
    rev = kw.get("reverse", False)
    if deep_concrete(vals) and key is None:
        needs = any(it._repo_dunder(v, "__lt__") is not None for v in vals)
        if not needs:
            return it.native(sorted, vals, **kw)
    keys = [it.call(key, [v]) if key is not None else v for v in vals]
    # insertion sort with interpreted comparisons (stable, like sorted())
    out = []
    for kv, v in zip(keys, vals):
        i = len(out)
        while i > 0 and it.truthy(it.binop(operator.lt, kv, out[i - 1][0])):
            i -= 1
        out.insert(i, (kv, v))
    res = [v for _, v in out]
    if rev:
        # reverse=True keeps stability of equal elements
        groups = []
        for kv, v in out:
            if groups and not it.truthy(it.binop(operator.lt, groups[-1][0], kv)):
                groups[-1][1].append(v)
            else:
                groups.append((kv, [v]))
        res = [v for _, g in reversed(groups) for v in g]
    return res

def _sp_list(it, args, kw):
    if not args:
        return []
    return list(it.iterate(args[0]))

def _sp_tuple(it, args, kw):
    if not args:
        return ()
    return tuple(it.iterate(args[0]))

def _sp_enumerate(it, args, kw):
    start = args[1] if len(args) > 1 else kw.get("start", 0)
    return iter([(start + i, v) for i, v in enumerate(it.iterate(args[0]))])

def _sp_zip(it, args, kw):
    return it.native(zip, *[list(it.iterate(a)) for a in args], **kw)

def _sp_reversed(it, args, kw):
    v = args[0]
    f = it._repo_dunder(v, "__reversed__")
    if f is not None:
        return it.call(f, [v])
    return it.native(reversed, v)

def _sp_map(it, args, kw):
    fn = args[0]
    seqs = [list(it.iterate(a)) for a in args[1:]]
    return iter([it.call(fn, list(xs)) for xs in zip(*seqs)])

def _sp_filter(it, args, kw):
    fn = args[0]
    return iter([x for x in it.iterate(args[1])
                 if (it.truthy(it.call(fn, [x])) if fn is not None else it.truthy(x))])

def _sp_next(it, args, kw):
    try:
        return next(args[0])
    except StopIteration as e:
        if len(args) > 1:
            return args[1]
        raise ProgExc(e)

def _sp_print(it, args, kw):
    return None

def _sp_iter(it, args, kw):
    return it.iterate(args[0])

def _sp_callable(it, args, kw):
    return callable(args[0])

def _sp_id(it, args, kw):
    return id(args[0])

_SPECIAL = {
    isinstance: _sp_isinstance, type: _sp_type, int: _sp_int, bool: _sp_bool,
    float: _sp_float, str: _sp_str, repr: _sp_repr, min: _sp_min, max: _sp_max,
    abs: _sp_abs, len: _sp_len, sum: _sp_sum, all: _sp_all, any: _sp_any,
    range: _sp_range, getattr: _sp_getattr, hasattr: _sp_hasattr,
    setattr: _sp_setattr, sorted: _sp_sorted, list: _sp_list, tuple: _sp_tuple,
    enumerate: _sp_enumerate, zip: _sp_zip, reversed: _sp_reversed,
    map: _sp_map, filter: _sp_filter, next: _sp_next, print: _sp_print,
    iter: _sp_iter, callable: _sp_callable, id: _sp_id,
}
