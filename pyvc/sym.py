"""Symbolic values and the per-path context of pyvc.

Execution style (DESIGN 2.3): concrete types, symbolic values, one path at a
time.  A symbolic int/bool is a proxy around a z3 term; *every* use of a proxy
in a boolean context (`if`, `and`, `while`, ...) asks the active path context
which way to go, so the same proxies work inside the AST interpreter
(pyvc.interp) and inside natively executed contract code.
"""
from __future__ import annotations
import z3, random, time

class Unsupported(Exception):
    """The engine cannot model this construct: the target is *undecided*."""

class PathInfeasible(Exception):
    """An assumption made the current path infeasible (not an error)."""

class PathEnd(Exception):
    """The path was cut on purpose (loop-invariant cut point)."""

_CTX = None

def cur():
    if _CTX is None:
        raise Unsupported("symbolic value used outside a path context")
    return _CTX

def set_ctx(c):
    global _CTX
    old = _CTX
    _CTX = c
    return old

# ----------------------------------------------------------------------------
# lifting / normalisation

def is_sym(x):
    return isinstance(x, (SInt, SBool, SReal))

def lift(x):
    """python/symbolic number -> z3 arithmetic term (bools become 0/1)."""
    if isinstance(x, SInt):
        return x.t
    if isinstance(x, SBool):
        return z3.If(x.t, z3.IntVal(1), z3.IntVal(0))
    if isinstance(x, SReal):
        return x.t
    if isinstance(x, bool):
        return z3.IntVal(1 if x else 0)
    if isinstance(x, int):
        return z3.IntVal(x)
    if isinstance(x, float):
        return z3.RealVal(repr(x))
    raise TypeError(f"cannot lift {type(x).__name__}")

def liftb(x):
    """python/symbolic truth value -> z3 Bool term (no forking)."""
    if isinstance(x, SBool):
        return x.t
    if isinstance(x, bool):
        return z3.BoolVal(x)
    if isinstance(x, SInt):
        return x.t != 0
    if isinstance(x, int):
        return z3.BoolVal(x != 0)
    if x is None:
        return z3.BoolVal(False)
    raise TypeError(f"cannot lift {type(x).__name__} to Bool")

def mk(t):
    """z3 term -> python constant when it simplifies to one, else proxy."""
    t = z3.simplify(t)
    if z3.is_bool(t):
        if z3.is_true(t):
            return True
        if z3.is_false(t):
            return False
        return SBool(t)
    if z3.is_int_value(t):
        return t.as_long()
    if z3.is_int(t):
        return SInt(t)
    if z3.is_rational_value(t):
        if t.denominator_as_long() == 1:
            return float(t.numerator_as_long())
        return t.numerator_as_long() / t.denominator_as_long()
    return SReal(t)

def _num(x):
    return isinstance(x, (int, SInt, SBool)) and not isinstance(x, str)

def _isreal(x):
    return isinstance(x, (float, SReal))

def _divmod_def(a, b):
    """Definitional extension for division by a *symbolic* divisor: fresh q, r
    with a = b*q + r and r in [0,b) (b>0) or (b,0] (b<0).  This characterises
    Python's floor division and modulo uniquely for b != 0 and is always
    satisfiable, so adding it to the path is conservative.  The pair is cached
    per (a, b) so the code's `a // b` and the specification's floor(a/b) are
    the same term."""
    ctx = _CTX
    if ctx is None or ctx.concrete or not ctx.ghost.get("defdiv"):
        return None
    key = (a.get_id(), b.get_id())
    tab = ctx.ghost.setdefault("__divmod__", {})
    if key not in tab:
        k = len(tab)
        q, r = z3.Int(f"__q{k}"), z3.Int(f"__r{k}")
        ctx.solver.add(z3.Implies(b != 0, z3.And(
            a == b * q + r,
            z3.If(b > 0, z3.And(0 <= r, r < b), z3.And(b < r, r <= 0)))))
        tab[key] = (q, r, a, b)
    return tab[key][0], tab[key][1]

def _known_sign(b):
    """+1 / -1 if the path condition fixes the sign of the divisor term b
    (keeps division terms free of sign case-splits), else 0."""
    ctx = _CTX
    if ctx is None or ctx.concrete:
        return 0
    tab = ctx.ghost.setdefault("__sign__", {})
    k = (b.get_id(), len(ctx.trace), ctx.solver.num_scopes(), len(ctx.solver.assertions()))
    k0 = b.get_id()
    if tab.get(k0, 0) != 0:
        return tab[k0]          # signs only become *more* determined along a path
    ctx._set_timeout(500)
    try:
        r, _ = ctx._check(b <= 0)
        if r == z3.unsat:
            tab[k0] = 1
            return 1
        r, _ = ctx._check(b >= 0)
        if r == z3.unsat:
            tab[k0] = -1
            return -1
    finally:
        ctx._set_timeout(ctx.timeout_ms)
    return 0


def py_floordiv_t(a, b):
    """z3 term for Python's a // b given b != 0 (either sign)."""
    if z3.is_int_value(b):
        bv = b.as_long()
        if bv > 0:
            return a / b
        return (-a) / z3.IntVal(-bv)
    d = _divmod_def(a, b)
    if d is not None:
        return d[0]
    sg = _known_sign(b)
    if sg > 0:
        return a / b
    if sg < 0:
        return (-a) / (-b)
    return z3.If(b > 0, a / b, (-a) / (-b))

def py_mod_t(a, b):
    if z3.is_int_value(b) and b.as_long() > 0:
        return a % b
    d = _divmod_def(a, b)
    if d is not None:
        return d[1]
    return a - b * py_floordiv_t(a, b)


class SInt:
    __slots__ = ("t",)

    def __init__(self, t):
        self.t = t

    # -- contexts that need a concrete answer
    def __bool__(self):
        return cur().branch(self.t != 0)

    def __index__(self):
        raise Unsupported("symbolic int used where a concrete index is required")

    def __hash__(self):
        raise Unsupported("symbolic int hashed")

    def __repr__(self):
        return f"SInt({self.t})"

    def __str__(self):
        return OStr(f"<{self.t}>")

    def __format__(self, spec):
        return OStr(f"<{self.t}>")

    def __int__(self):
        raise Unsupported("int() of symbolic int natively")

    # -- arithmetic
    def _bin(self, o, f, rev=False):
        if _isreal(o):
            a, b = z3.ToReal(self.t), lift(o)
        elif _num(o):
            a, b = self.t, lift(o)
        else:
            return NotImplemented
        return mk(f(b, a) if rev else f(a, b))

    def __add__(self, o): return self._bin(o, lambda a, b: a + b)
    def __radd__(self, o): return self._bin(o, lambda a, b: a + b, True)
    def __sub__(self, o): return self._bin(o, lambda a, b: a - b)
    def __rsub__(self, o): return self._bin(o, lambda a, b: a - b, True)
    def __mul__(self, o): return self._bin(o, lambda a, b: a * b)
    def __rmul__(self, o): return self._bin(o, lambda a, b: a * b, True)
    def __neg__(self): return mk(-self.t)
    def __pos__(self): return self
    def __abs__(self): return mk(z3.If(self.t >= 0, self.t, -self.t))

    def __floordiv__(self, o): return _floordiv(self, o)
    def __rfloordiv__(self, o): return _floordiv(o, self)
    def __mod__(self, o): return _mod(self, o)
    def __rmod__(self, o): return _mod(o, self)
    def __truediv__(self, o): return _truediv(self, o)
    def __rtruediv__(self, o): return _truediv(o, self)

    def __pow__(self, o):
        if isinstance(o, int) and not isinstance(o, bool) and 0 <= o <= 4:
            r = 1
            for _ in range(o):
                r = r * self
            return r
        raise Unsupported("symbolic **")

    def _cmp(self, o, f):
        if _isreal(o):
            return mk(f(z3.ToReal(self.t), lift(o)))
        if _num(o):
            return mk(f(self.t, lift(o)))
        return NotImplemented

    def __lt__(self, o): return self._cmp(o, lambda a, b: a < b)
    def __le__(self, o): return self._cmp(o, lambda a, b: a <= b)
    def __gt__(self, o): return self._cmp(o, lambda a, b: a > b)
    def __ge__(self, o): return self._cmp(o, lambda a, b: a >= b)

    def __eq__(self, o):
        r = self._cmp(o, lambda a, b: a == b)
        return False if r is NotImplemented else r

    def __ne__(self, o):
        r = self._cmp(o, lambda a, b: a != b)
        return True if r is NotImplemented else r


class SBool:
    __slots__ = ("t",)

    def __init__(self, t):
        self.t = t

    def __bool__(self):
        return cur().branch(self.t)

    def __hash__(self):
        raise Unsupported("symbolic bool hashed")

    def __index__(self):
        raise Unsupported("symbolic bool used as index")

    def __repr__(self):
        return f"SBool({self.t})"

    def __str__(self):
        return OStr(f"<{self.t}>")

    def __format__(self, spec):
        return OStr(f"<{self.t}>")

    def _asint(self):
        return SInt(lift(self))

    def __add__(self, o): return self._asint() + o
    def __radd__(self, o): return o + self._asint()
    def __sub__(self, o): return self._asint() - o
    def __rsub__(self, o): return o - self._asint()
    def __mul__(self, o): return self._asint() * o
    def __rmul__(self, o): return o * self._asint()
    def __neg__(self): return -self._asint()
    def __lt__(self, o): return self._asint() < o
    def __le__(self, o): return self._asint() <= o
    def __gt__(self, o): return self._asint() > o
    def __ge__(self, o): return self._asint() >= o

    def __eq__(self, o):
        if isinstance(o, (bool, SBool)):
            return mk(self.t == liftb(o))
        if _num(o) or _isreal(o):
            return self._asint() == o
        return False

    def __ne__(self, o):
        r = self.__eq__(o)
        return Not(r)

    def __and__(self, o):
        if isinstance(o, (bool, SBool)):
            return mk(z3.And(self.t, liftb(o)))
        return NotImplemented
    __rand__ = __and__

    def __or__(self, o):
        if isinstance(o, (bool, SBool)):
            return mk(z3.Or(self.t, liftb(o)))
        return NotImplemented
    __ror__ = __or__

    def __invert__(self):
        raise Unsupported("~ on symbolic bool")


class SReal:
    """A real number that arose from true division of ints (or float consts).
    Only what `simplify_cir`-style constant folding needs is modelled."""
    __slots__ = ("t",)

    def __init__(self, t):
        self.t = t

    def __bool__(self):
        return cur().branch(self.t != 0)

    def __hash__(self):
        raise Unsupported("symbolic real hashed")

    def __repr__(self):
        return f"SReal({self.t})"

    def __str__(self):
        return OStr(f"<{self.t}>")

    def __format__(self, spec):
        return OStr(f"<{self.t}>")

    def _bin(self, o, f, rev=False):
        if isinstance(o, (SInt, SBool, int)):
            b = z3.ToReal(lift(o))
        elif _isreal(o):
            b = lift(o)
        else:
            return NotImplemented
        return mk(f(b, self.t) if rev else f(self.t, b))

    def __add__(self, o): return self._bin(o, lambda a, b: a + b)
    def __radd__(self, o): return self._bin(o, lambda a, b: a + b, True)
    def __sub__(self, o): return self._bin(o, lambda a, b: a - b)
    def __rsub__(self, o): return self._bin(o, lambda a, b: a - b, True)
    def __mul__(self, o): return self._bin(o, lambda a, b: a * b)
    def __rmul__(self, o): return self._bin(o, lambda a, b: a * b, True)
    def __neg__(self): return mk(-self.t)
    def __lt__(self, o): return self._bin(o, lambda a, b: a < b)
    def __le__(self, o): return self._bin(o, lambda a, b: a <= b)
    def __gt__(self, o): return self._bin(o, lambda a, b: a > b)
    def __ge__(self, o): return self._bin(o, lambda a, b: a >= b)

    def __eq__(self, o):
        r = self._bin(o, lambda a, b: a == b)
        return False if r is NotImplemented else r

    def __ne__(self, o):
        r = self._bin(o, lambda a, b: a != b)
        return True if r is NotImplemented else r

    def __truediv__(self, o):
        if cur().branch(liftb(o == 0)):
            raise ZeroDivisionError("float division by zero")
        return self._bin(o, lambda a, b: a / b)


class OStr(str):
    """A string whose text depends on symbolic values.  Its content must never
    influence control flow: comparing or hashing it is unsupported."""
    def __eq__(self, o):
        raise Unsupported("comparison of a string that depends on symbolic values")
    def __ne__(self, o):
        raise Unsupported("comparison of a string that depends on symbolic values")
    def __hash__(self):
        raise Unsupported("hash of a string that depends on symbolic values")
    def __add__(self, o):
        return OStr(str.__add__(self, o))
    def __radd__(self, o):
        return OStr(str.__add__(o, self))
    def __str__(self):
        return self
    def __format__(self, spec):
        return self


def _floordiv(a, b):
    if _isreal(a) or _isreal(b):
        raise Unsupported("float floor division")
    if not (_num(a) and _num(b)):
        return NotImplemented
    if cur().branch(liftb(b == 0)):
        raise ZeroDivisionError("integer division or modulo by zero")
    return mk(py_floordiv_t(lift(a), lift(b)))

def _mod(a, b):
    if _isreal(a) or _isreal(b):
        raise Unsupported("float modulo")
    if not (_num(a) and _num(b)):
        return NotImplemented
    if cur().branch(liftb(b == 0)):
        raise ZeroDivisionError("integer division or modulo by zero")
    return mk(py_mod_t(lift(a), lift(b)))

def _truediv(a, b):
    if not ((_num(a) or _isreal(a)) and (_num(b) or _isreal(b))):
        return NotImplemented
    if cur().branch(liftb(b == 0)):
        raise ZeroDivisionError("division by zero")
    ta, tb = lift(a), lift(b)
    if z3.is_int(ta):
        ta = z3.ToReal(ta)
    if z3.is_int(tb):
        tb = z3.ToReal(tb)
    return mk(ta / tb)

# ----------------------------------------------------------------------------
# non-forking logical combinators for contracts

def And(*xs):
    if len(xs) == 1 and isinstance(xs[0], (list, tuple)):
        xs = xs[0]
    ts = []
    for x in xs:
        if x is True:
            continue
        if x is False:
            return False
        ts.append(liftb(x))
    return mk(z3.And(*ts)) if ts else True

def Or(*xs):
    if len(xs) == 1 and isinstance(xs[0], (list, tuple)):
        xs = xs[0]
    ts = []
    for x in xs:
        if x is False:
            continue
        if x is True:
            return True
        ts.append(liftb(x))
    return mk(z3.Or(*ts)) if ts else False

def Not(x):
    if isinstance(x, bool):
        return not x
    return mk(z3.Not(liftb(x)))

def Implies(a, b):
    return Or(Not(a), b)

def Iff(a, b):
    return And(Implies(a, b), Implies(b, a))

def Ite(c, a, b):
    if isinstance(c, bool):
        return a if c else b
    if isinstance(a, (bool, SBool)) and isinstance(b, (bool, SBool)):
        return mk(z3.If(liftb(c), liftb(a), liftb(b)))
    return mk(z3.If(liftb(c), lift(a), lift(b)))

def Min(a, b):
    return Ite(a <= b, a, b)

def Max(a, b):
    return Ite(a >= b, a, b)

def floordiv(a, b):
    """Python // as a term, *assuming* b != 0 (no fork)."""
    if isinstance(a, int) and isinstance(b, int):
        return a // b
    return mk(py_floordiv_t(lift(a), lift(b)))

def mod(a, b):
    if isinstance(a, int) and isinstance(b, int):
        return a % b
    return mk(py_mod_t(lift(a), lift(b)))

def cut(cond, label):
    """Lemma / cut: prove `cond` on the current path (an obligation of its
    own), then use it as an assumption for what follows."""
    c = cur()
    c.prove(cond, "lemma: " + label)
    c.assume(cond)

# ----------------------------------------------------------------------------
# the path context

class Obligation:
    __slots__ = ("label", "status", "time", "model", "detail", "trace")
    def __init__(self, label, status, time, model=None, detail="", trace=()):
        self.label, self.status, self.time = label, status, time
        self.model, self.detail, self.trace = model, detail, trace


class Ctx:
    """One symbolic path: a decision prefix that is replayed, then extended."""
    concrete = False

    def __init__(self, prefix=(), timeout_ms=10000, seed=0, rlimit=None):
        self.prefix = list(prefix)
        self.trace = []
        self.alts = []            # alternative prefixes discovered on this path
        self.solver = z3.Solver()
        # opt-in (contract attribute `rlimit`): bound every check of the
        # incremental solver by z3's deterministic resource limit instead of a
        # wall-clock timeout.  A wall-clock timeout costs one timer thread per
        # check (~5 ms), which dominates contracts with many tiny linear queries.
        self.rlimit = rlimit
        self.timeout_ms = timeout_ms
        # Budgets are z3 *resource* limits (deterministic, independent of how
        # busy the machine is), scaled from the nominal timeout: ~2e7 units is
        # about one second of z3 on an idle core.  The wall-clock timeout is
        # only a safety net (12x the nominal value).
        self.unit = 20000 * timeout_ms            # rlimit units of the nominal budget
        if rlimit:
            self.solver.set("rlimit", int(rlimit))
        else:
            self.solver.set("rlimit", int(self.unit))
            self.solver.set("timeout", 12 * timeout_ms)
        self.solver.set("random_seed", seed)
        self.nfresh = 0
        self.leaves = {}          # name -> z3 const (inputs, for models)
        self.obligations = []
        self.assumed = []         # labels of assumed contracts used on this path
        self.ghost = {}
        self.solver_time = 0.0
        self.nchecks = 0
        self.choices_made = []    # structural choices only (for concrete replay)
        self.names = {}
        self.backend_used = {}

    # -- solver plumbing
    def _set_timeout(self, ms):
        """budget of the incremental solver, given as a nominal time"""
        if not self.rlimit:
            self.solver.set("rlimit", int(20000 * ms))

    def _check(self, *extra):
        t0 = time.time()
        self.solver.push()
        for e in extra:
            self.solver.add(e)
        r = self.solver.check()
        m = self.solver.model() if r == z3.sat else None
        self.solver.pop()
        self.solver_time += time.time() - t0
        self.nchecks += 1
        return r, m

    def _check_quick(self, neg):
        """incremental solver with a short budget (it is weak on non-linear
        integer arithmetic; a fresh solver does much better there)"""
        self._set_timeout(min(self.timeout_ms, 500))
        try:
            return self._check(neg)
        finally:
            self._set_timeout(self.timeout_ms)

    def _check_fresh(self, neg):
        """fresh non-incremental z3 solver, then the z3-new / cvc5 CLIs"""
        t0 = time.time()
        s = z3.Solver()
        s.set("rlimit", int(self.unit))
        s.set("timeout", 12 * self.timeout_ms)
        for a in self.solver.assertions():
            s.add(a)
        s.add(neg)
        r = s.check()
        m = s.model() if r == z3.sat else None
        self.solver_time += time.time() - t0
        self.nchecks += 1
        if r != z3.unknown:
            self.backend_used["z3-fresh"] = self.backend_used.get("z3-fresh", 0) + 1
            return r, m
        r2, vals = _cli_portfolio(s.to_smt2(), self.timeout_ms, list(self.leaves))
        self.solver_time += time.time() - t0
        if r2 == "unsat":
            self.backend_used["cli"] = self.backend_used.get("cli", 0) + 1
            return z3.unsat, None
        if r2 == "sat" and vals is not None:
            self.backend_used["cli"] = self.backend_used.get("cli", 0) + 1
            return z3.sat, _DictModel(vals, self.leaves)
        return z3.unknown, None

    def _next(self):
        i = len(self.trace)
        return self.prefix[i] if i < len(self.prefix) else None

    def branch(self, cond):
        """Decide a symbolic condition on this path; returns a python bool."""
        if isinstance(cond, bool):
            return cond
        cond = z3.simplify(cond)
        if z3.is_true(cond):
            return True
        if z3.is_false(cond):
            return False
        d = self._next()
        if d is None:
            # feasibility is an optimisation only: `unknown` counts as feasible
            self._set_timeout(min(self.timeout_ms, 1000))
            rt, _ = self._check(cond)
            rf, _ = self._check(z3.Not(cond))
            self._set_timeout(self.timeout_ms)
            can_t, can_f = rt != z3.unsat, rf != z3.unsat
            if can_t and can_f:
                self.alts.append(self.trace + [0])
                d = 1
            elif can_t:
                d = 1
            elif can_f:
                d = 0
            else:
                raise PathInfeasible()
        self.trace.append(d)
        self.solver.add(cond if d else z3.Not(cond))
        return bool(d)

    def choose(self, n, label=""):
        """n-way structural choice (shape enumeration); returns 0..n-1."""
        if n <= 0:
            raise PathInfeasible()
        if n == 1:
            return 0
        d = self._next()
        if d is None:
            for k in range(1, n):
                self.alts.append(self.trace + [k])
            d = 0
        self.trace.append(d)
        self.choices_made.append(d)
        return d

    def _leafname(self, name):
        k = self.names.get(name, 0) + 1
        self.names[name] = k
        return f"{name}!{k}"

    def fresh_int(self, name):
        self.nfresh += 1
        nm = self._leafname(name)
        c = z3.Int(nm)
        self.leaves[nm] = c
        return SInt(c)

    def fresh_bool(self, name):
        self.nfresh += 1
        nm = self._leafname(name)
        c = z3.Bool(nm)
        self.leaves[nm] = c
        return SBool(c)

    def assume(self, cond):
        if isinstance(cond, bool):
            if not cond:
                raise PathInfeasible()
            return
        t = liftb(cond)
        self.solver.add(t)
        self._set_timeout(min(self.timeout_ms, 1000))
        r, _ = self._check()
        self._set_timeout(self.timeout_ms)
        if r == z3.unsat:
            raise PathInfeasible()

    def prove(self, cond, label, detail=""):
        """Record the obligation `path condition => cond`."""
        t0 = time.time()
        tr = tuple(self.trace)
        if cond is True:
            ob = Obligation(label, "discharged", 0.0, None, detail, tr)
        else:
            neg = z3.BoolVal(True) if cond is False else z3.Not(liftb(cond))
            r, m = self._check_quick(neg)
            if r == z3.unknown:
                r, m = self._check_fresh(neg)
            if r == z3.unsat:
                ob = Obligation(label, "discharged", time.time() - t0, None, detail, tr)
            elif r == z3.sat:
                ob = Obligation(label, "refuted", time.time() - t0,
                                self._model_dict(m), detail, tr)
            else:
                ob = Obligation(label, "unknown", time.time() - t0,
                                {"smt2": self._smt2(neg)}, detail, tr)
        self.obligations.append(ob)
        return ob.status == "discharged"

    def _model_dict(self, m):
        if isinstance(m, _DictModel):
            return dict(m.vals)
        out = {}
        for nm, c in self.leaves.items():
            v = m.eval(c, model_completion=True)
            if z3.is_int_value(v):
                out[nm] = v.as_long()
            elif z3.is_true(v) or z3.is_false(v):
                out[nm] = z3.is_true(v)
            else:
                out[nm] = str(v)
        return out

    def _smt2(self, neg):
        s = z3.Solver()
        for a in self.solver.assertions():
            s.add(a)
        s.add(neg)
        return s.to_smt2()

    def feasible(self):
        r, _ = self._check()
        return r != z3.unsat


class _DictModel:
    """model obtained from a CLI solver: leaf name -> python value"""
    def __init__(self, vals, leaves):
        self.vals = {k: vals.get(k, 0) for k in leaves}


def _cli_portfolio(smt2, timeout_ms, leaves=()):
    """Second opinion on an `unknown`: z3 5.x CLI and cvc5 on the same query.
    Returns ("unsat", None) | ("sat", {leaf: value} | None) | ("unknown", None).
    z3 is bounded by its resource limit (deterministic); cvc5 by wall clock."""
    import subprocess, tempfile, os, shutil, re
    d = tempfile.mkdtemp(prefix="pyvc_q_", dir="/var/tmp")
    try:
        p = os.path.join(d, "q.smt2")
        gv = ""
        if leaves:
            gv = "(get-value (" + " ".join("|%s|" % n for n in leaves) + "))\n"
        with open(p, "w") as f:
            f.write("(set-option :produce-models true)\n(set-logic ALL)\n" + smt2 + "\n" + gv)
        secs = max(2, timeout_ms // 1000)
        for cmd in (["z3-new", f"rlimit={20000 * timeout_ms}", f"-T:{12 * secs}", p],
                    ["cvc5", f"--tlimit={3 * secs * 1000}", "--nl-ext-tplanes", p]):
            if shutil.which(cmd[0]) is None:
                continue
            try:
                out = subprocess.run(cmd, capture_output=True, text=True, timeout=12 * secs + 5).stdout
            except Exception:
                continue
            lines = out.strip().splitlines()
            first = lines[0].strip() if lines else ""
            if first == "unsat":
                return "unsat", None
            if first == "sat":
                vals = {}
                txt = "\n".join(lines[1:])
                for m in re.finditer(r"\(\|?([^\s|()]+)\|?\s+(\(-\s*\d+\)|-?\d+|true|false)\)", txt):
                    v = m.group(2)
                    if v in ("true", "false"):
                        vals[m.group(1)] = (v == "true")
                    else:
                        vals[m.group(1)] = int(v.replace("(", "").replace(")", "").replace(" ", ""))
                return "sat", (vals if leaves else None)
        return "unknown", None
    finally:
        shutil.rmtree(d, ignore_errors=True)


class ConcreteCtx:
    """Context for concrete runs (cross-check, replay): no solver; leaves take
    scripted or random values; structural choices are scripted or random."""
    concrete = True

    def __init__(self, rng=None, values=None, choices=None, lo=-6, hi=6):
        self.rng = rng or random.Random(0)
        self.values = dict(values or {})
        self.choices = list(choices) if choices is not None else None
        self.trace = []
        self.nfresh = 0
        self.names = {}
        self.lo, self.hi = lo, hi
        self.ghost = {}
        self.obligations = []
        self.assumed = []
        self.leaves = {}
        self.alts = []

    def branch(self, cond):
        if isinstance(cond, bool):
            return cond
        c = z3.simplify(cond)
        if z3.is_true(c):
            return True
        if z3.is_false(c):
            return False
        raise Unsupported("symbolic branch in concrete mode")

    def choose(self, n, label=""):
        if n <= 0:
            raise PathInfeasible()
        i = len(self.trace)
        if self.choices is not None and i < len(self.choices):
            d = self.choices[i]
        else:
            d = self.rng.randrange(n) if n > 1 else 0
        if n == 1:
            return 0
        self.trace.append(d)
        return d

    def _leafname(self, name):
        k = self.names.get(name, 0) + 1
        self.names[name] = k
        return f"{name}!{k}"

    def fresh_int(self, name):
        self.nfresh += 1
        nm = self._leafname(name)
        if nm in self.values:
            v = self.values[nm]
        else:
            v = self.rng.randint(self.lo, self.hi)
        self.leaves[nm] = v
        return v

    def fresh_bool(self, name):
        self.nfresh += 1
        nm = self._leafname(name)
        if nm in self.values:
            v = bool(self.values[nm])
        else:
            v = bool(self.rng.getrandbits(1))
        self.leaves[nm] = v
        return v

    def assume(self, cond):
        if not cond:
            raise PathInfeasible()

    def prove(self, cond, label, detail=""):
        ok = bool(cond)
        self.obligations.append(
            Obligation(label, "discharged" if ok else "refuted", 0.0,
                       dict(self.leaves), detail, tuple(self.trace)))
        return ok

    def feasible(self):
        return True
