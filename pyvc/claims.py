"""What MANIFEST.json claims (single source; gen_manifest.py renders it)."""

ENGINES = [
    dict(name="pyvc", path="/verif/pyvc", serves_properties=[],
         kind_free_text="self-built deductive verifier for a Python subset: path-wise symbolic execution of the real "
                        "source AST (concrete types, symbolic values), sidecar contracts, z3 back end (incremental, "
                        "fresh solver, z3-new/cvc5 CLI portfolio), concrete replay of counter-models against the real "
                        "functions under CPython; plus an AST ownership/ordering analysis (pyvc/ownership.py), a "
                        "symbolic heap (pyvc/heap.py) and a C-helper VC generator"),
]

_T = "deductive verification: VCs generated from the Python AST by symbolic execution, sidecar contracts, modular callee contracts / induction, z3"

CLAIMS = {
    "C01": dict(
        text="Partial, per function: 16 loop- and branch-restructuring rewrites (cut, shift, join, divide in all tail "
             "modes, divide_with_recompute, product, unroll, remove, add, fuse, fuse_if, dead loop/branch, lift_scope, "
             "fission, reorder) are interpreted on real procedures with symbolic bounds/quotients/cut points and their "
             "output nest is proved to execute the observable statements for exactly the same iterator values in the "
             "prescribed order (explicit witnesses), with each licensing Check_* called on the right statements; the "
             "side-condition predicates of new_eff.py are proved to imply their Bernstein-style conditions over "
             "abstract location sets; the Kleene lowering and the div/mod constraint of SMTSolver are proved sound. "
             "Thirteen statement/expression-level rewrites (merge_writes, split_write, fold_into_reduce, inline_assign, "
             "lift_reduce_constant, commute/reassociate/rewrite_expr, bind_expr, specialize, delete_pass, "
             "eliminate_dead_code, insert_pass) are proved against a store semantics over z3 reals/arrays: for every "
             "initial store the rewritten block leaves the same final contents. The side condition of buffer folding "
             "(CheckFoldBuffer.do_s) is proved to account for every access of the folded buffer a statement makes.",
        design_ref="3/C01",
        note="Not whole-program equivalence: effect extraction, Alpha_Rename/SubstArgs, the pattern matcher, every "
             "primitive not listed (stage_mem, bind_expr, inline, autolift, specialize, ...), compositions in the "
             "stdlib, and the lemma 'Bernstein conditions imply commutation' are assumed; focus statement at top "
             "level, blocks of 1-3 statements, nests <= 2 deep.",
        technique=_T + "; iteration-trace postconditions with explicit witnesses; formula-construction contracts"),
    "C02": dict(
        text="Index linearisation is proved for all values: lift_to_cir and simplify_cir preserve the floor-semantics "
             "value and only flag a node non-negative when it is; tensor_strides/get_strides/get_idx_offset compute "
             "the row-major offset (ranks 1-4, dense, window, asserted stride). The emitted C text of comp_cir/comp_e "
             "is validated against floor semantics for every expression tree up to depth 2 with symbolic values "
             "(bounded in depth, reported as bounded), new_varname injectivity on bounded name sequences.",
        design_ref="3/C02",
        note="Not covered: statement lowering comp_s as text, precision casts, memory macro text, externs, the C "
             "compiler; machine integers are treated as mathematical outside exo_floor_div; exo_floor_div's "
             "semantics is proved under C08.",
        technique=_T + "; bounded translation validation of emitted C text via a small C expression evaluator"),
    "C03": dict(
        text="CheckBounds is run with a recording solver on a family of procedures (one per statement kind and "
             "window form, all sizes/offsets/indices symbolic) and z3 proves that validity of the recorded questions "
             "implies the property's conditions: every read, write and reduce - also through window aliases and "
             "callee effects - lies in the source buffer, sizes are positive, trip counts non-negative, call shapes "
             "equal and callee assertions hold; any negative answer makes definition fail. The div/mod lowering is "
             "proved to characterise floor division uniquely; typecheck is proved to admit only positive literal "
             "divisors and quasi-affine products; Check_Aliasing runs on roots.",
        design_ref="3/C03",
        note="Shapes bounded (block length <= 3, loop depth <= 2, window chain <= 2, rank <= 3); Check_Aliasing by "
             "bounded enumeration (labelled bounded). Assumes PySMT validity, the effect algebra outside those "
             "shapes, pyparser. Known finding F8d: an access outside a window alias's own extent but inside the "
             "source buffer is accepted (a repair breaks an existing test).",
        technique=_T + "; formula-construction contracts (recorded solver questions imply the property's condition, quantifier elimination per conclusion)"),
    "C04": dict(
        text="Partial: index remaps of divide_dim/mult_dim/fold/unroll_buffer/resize/expand are proved in range and "
             "injective for all values; the storage-moving rewrites are proved to call Check_Bounds on the final ir and "
             "the new allocation (resp. Check_Aliasing on the result) on every normally returning path; the results of "
             "the allocation-moving and block-copying rewrites on real procedures are proved well scoped (every use "
             "in the scope of exactly one declaration, copied blocks alpha-renamed). Alpha_Rename and SubstArgs are "
             "proved by structural induction (fresh injective binders, uses renamed consistently, free symbols and "
             "everything else unchanged, scope frames restored; substitution denotationally correct), all 37 "
             "duplication sites of LoopIR_scheduling.py are scanned for the rename, every rewrite that moves code "
             "across a binder (lift_scope, fission, reorder, fuse, join, unroll, remove/add_loop, bind_expr, "
             "extract_subproc, stage_mem, autolift_alloc, delete_buffer) is proved to return a well-scoped procedure "
             "or raise, and stage_mem's safety guards are proved to cover both bounds of every dimension.",
        design_ref="3/C04",
        note="Assumes Check_Bounds/Check_Aliasing themselves; SubstArgs is capture-free only under the callers' "
             "preconditions (listed); uninitialised reads are not covered. Known findings: F20 (sink_alloc leaves the else branch using a symbol declared only in the "
             "if branch; the golden file of an existing test records that output) and F23 (insert_noop_call checks "
             "only argument types; an existing test inserts a call with an out-of-range window).",
        technique=_T + "; protocol obligations via ghost call recorders; scoping checker as ghost function over the result tree"),
    "C05": dict(
        text="The structural matcher is under contract case by case (unify_stmts for all statement constructors, "
             "unify_e for all expression shapes incl. all comparison pairs, unify_accesses for window and dense "
             "arguments, holes for bools and strides, to_ueq/from_ueq): each case is proved to return normally only "
             "for nodes of equal constructor/operator/literal and to add exactly the equations that make the callee "
             "node equal to the block node under the hole assignment (two equations per loop, one per index "
             "dimension, one buffer per callee buffer). The linear-integer lowering inside UEq.problem.solve is proved "
             "(coefficient vectors, sound lowering of Eq/Conj/Disj/Cases, solution read-back), normalize preserves "
             "values, and DoReplace's protocol is proved on real procedures (exactly the unified prefix is replaced "
             "by one call with the solved arguments, Check_Aliasing runs on the result).",
        design_ref="3/C05",
        note="Bounded parts: list lengths of the schematic shapes; an end-to-end replace+inline translation "
             "validation of 71 (block, callee) pairs is reported as bounded. Assumes the callee is alpha-renamed, "
             "FreeVars/Get_Live_Variables, the SMT oracle; loop modes and local precisions are outside the store "
             "semantics. Known finding F9: replace() does not check the callee's assertions at the new call site "
             "(no repair keeps the suite passing).",
        technique=_T + "; bounded translation validation of replace by inlining back"),
    "C06": dict(
        text="Partial: the index arithmetic of every forwarding closure (insert, replace/delete, wrap) is proved for "
             "all positions and list lengths against the list-concatenation model; _local_forward is proved to splice "
             "only at the edit depth and only on paths through the edited list; each real edit (insert, replace, "
             "delete, wrap, move, node replace) is run together with its real forwarding function on real procedures "
             "with symbolic positions: a surviving statement is forwarded to the very same object, a deleted one is "
             "invalid, blocks never gain foreign statements, gaps follow their anchor; _compose, Procedure.forward "
             "(oldest first, identity for the same procedure, error for unrelated) and implicit forwarding by "
             "CursorArgumentProcessor. For 42 scheduling primitives every cursor of the input procedure (nodes at "
             "every depth, all gaps, all contiguous blocks) is forwarded through the primitive's composed forwarding "
             "function and proved to be invalid or to denote the same code in the result (never a different "
             "statement, never dangling; carried-over statements are not reported invalid; documented images of the "
             "focus; foreign cursors rejected), which also fixes the order of every _compose. A block that a rewrite "
             "emptied is proved to be reported as InvalidCursorError by Procedure.forward, never returned.",
        design_ref="3/C06",
        note="Tree shapes are bounded (edited block length 0-4, blocks of 1-3 statements, nesting depth <= 2) with "
             "symbolic positions and literals; single-edit primitives returning one elementary forwarding function "
             "and the forwarding-less DoLiftAlloc/DoFissionLoops/DoPartialEval are not covered; expression cursors "
             "are out of scope. Known finding F50: add_loop(guard=True) forwards a cursor to the wrapped statement "
             "to the new guard (a test relies on it).",
        technique=_T + "; symbolic ranges/slices (pyvc/srange.py)"),
    "C07": dict(
        text="Every in-place mutation site (548 obligations) in the scheduling, effect-analysis, cursor, LoopIR, "
             "proc_eqv and API files is proved to act on a container that is fresh on every path (flow-sensitive "
             "ownership analysis over the real AST, one propositional obligation per site), or on a declared add-only "
             "cache; with frozen ADT nodes and copying constructors (probed on every run) this implies that no "
             "existing procedure or cursor is changed by any call, successful or failing.",
        design_ref="3/C07, 2.6-D",
        note="Assumes the listed sidecar annotations (owns_param, declared caches), that callees outside the analysed "
             "files do not mutate their arguments, and that dynamic setattr/__dict__ tricks are absent.",
        technique="contract-style frame/ownership obligations generated from the AST (flow-sensitive origin analysis), discharged per site with z3; replay by structural fingerprint of source procedures"),
    "C08": dict(
        text="MemoryAnalysis free placement is proved by a one-step inductive contract on arbitrary scope states: "
             "exactly one Free per Alloc, in the same block, after the last statement that uses its storage through "
             "any chain of window aliases (last use specified from the property, not from used_s); used_e/used_s by "
             "structural induction; the exo_floor_div C helper is parsed from the source on every run and proved free "
             "of UB (32-bit bit-vectors) and equal to floor division.",
        design_ref="3/C08",
        note="Bounded parts (block enumeration up to 5-6 statements, small bit-widths for the direct bit-vector "
             "statement) are reported as bounded. Not covered: const-ness analysis, alloc/free macro text, libc, "
             "overflow of index arithmetic outside the helper; '/' '%' emission guards are covered under C02.",
        technique=_T + "; C-helper VC over bit-vectors"),
    "C09": dict(
        text="Coverage is proved by structural induction: after ParallelAnalysis.run returns normally "
             "Check_ParallelizeLoop was called on every Par loop at any depth, every compiled non-instr proc in the "
             "call-graph closure goes through it, and the formula Check_ParallelizeLoop hands to the solver implies "
             "the property's pairwise disjointness condition between distinct iterations (checked with z3 over "
             "abstract location sets).",
        design_ref="3/C09",
        note="Assumes effect extraction (stmts_effs/getsets) over-approximates the accesses of an iteration, the "
             "is_empty lowering and the SMT solver; block lengths <= 3 in the traversal shapes.",
        technique=_T + "; formula-construction contracts (captured formula implies the property's condition)"),
    "C10": dict(
        text="Check_DeleteConfigWrite and Check_ExtendEqv are run with abstract ternary atoms per configuration field "
             "through the real simplifier and Kleene lowering; for every normal return z3 proves that only "
             "configuration state is modified, a field read afterwards is unchanged, and every field not reported is "
             "unchanged or overwritten. DoConfigWrite/DoBindConfig/DoDeleteConfig/DoCallSwap, the four API wrappers "
             "and Procedure.__init__ are proved to pass exactly the reported set on to derive_proc; call_eqv proceeds "
             "only if get_strictest_eqv_proc relates the callees and uses exactly its keys. "
             "ContextExtraction.preenv_s/preenv_stmts (mutual induction) and loop_preenv are proved against a ghost "
             "specification of the pre-environment: it accounts for the preceding statements of every enclosing block "
             "and the earlier iterations of every enclosing loop.",
        design_ref="3/C10",
        note="Assumes soundness of the global data-flow (globenv of a block; control predicate and post-effects of "
             "ContextExtraction), effect extraction, get_point_exprs, is_elem/is_empty "
             "and z3; 1-3 candidate fields and small statement positions are enumerated as shapes.",
        technique=_T + "; formula-construction contracts (captured solver formulas imply the property's condition)"),
    "C11": dict(
        text="All of proc_eqv.py is under contract over a symbolic heap with unbounded many nodes: find's loop "
             "invariant (ghost root/rank) shows path compression never changes the partition, union merges exactly "
             "two classes (whole-view postcondition), copy is deep; decl/derive/assert/new-key steps update exactly "
             "the structures the per-field reading prescribes and the queries answer exactly accordingly.",
        design_ref="3/C11",
        note="Assumes WeakKeyDictionary behaves as an identity-keyed map without collection of live procs; the "
             "history-level induction over the proved step postconditions is a meta-argument; which API operations "
             "start a new origin is decided outside proc_eqv.py and not covered.",
        technique=_T + " over a symbolic heap with ghost root/rank functions and loop invariants"),
    "C12": dict(
        text="_DoNormalize (coefficient maps, get_normalized_expr, generate_loopIR, division/modulo simplification, "
             "denominator splitting and collapsing, index_start by structural induction) and DoSimplify (cfold, "
             "map_binop rules, quotient-remainder, branch facts, branch/loop removal decisions) are proved to "
             "preserve the floor-semantics value for all coefficients, constants, divisors and variable values "
             "admitted by the range environment.",
        design_ref="3/C12",
        note="Assumes the C13 contracts of IndexRangeEnvironment (proved there), Cursor_Rewrite traversal plumbing, "
             "and that inside one index expression two different sub-expressions never print identically "
             "(is_quotient_remainder compares printed text).",
        technique=_T + " with explicit quotient witnesses (cuts) for non-linear arithmetic"),
    "C13": dict(
        text="Every arithmetic operator of IndexRange, the recursive range analysis (structural induction with the "
             "contract as induction hypothesis), constant_bound and the IndexRangeEnvironment queries are proved "
             "gamma-sound against floor-division semantics for all integer bounds and values; the queries are proved "
             "to leave the environment as they found it and no function under contract writes module-level state "
             "(frame obligation), so an answer cannot depend on earlier calls; obligations are "
             "generated from the current source on every run and discharged by z3.",
        design_ref="3/C13",
        note="Assumes pyvc's Python semantics, z3, LoopIR_Compare.match_e (used by the join) returning True only for "
             "expressions of equal value, Check_ExprBound (slow path of arg_range_analysis) and the enumerated "
             "constructor shapes of expressions; the stdlib mirror is covered through the shared IndexRange class only.",
        technique=_T),
    "C15": dict(
        text="Thin: the rejection rules are proved on exhaustive precision/memory/window-ness domains: "
             "PrecisionAnalysis records an error whenever two different concrete precisions meet in one expression or "
             "across a call and leaves no R-typed node; MemoryAnalysis accepts a call iff every argument's memory is a "
             "subclass of the callee's; WindowAnalysis promotes dense tensors to full windows and rejects windows "
             "where a dense tensor is required; comp_e/comp_s emit a direct access only through can_read / "
             "mem.write / mem.reduce.",
        design_ref="3/C15",
        note="NOT covered: that the emitted text is grammatical, well-typed C as a language-level judgement (no C "
             "front end is in reach of contracts); expression shapes are bounded (depth <= 3).",
        technique=_T),
    "C16": dict(
        text="Navigation laws on Node/Block/Gap and the API wrappers are proved for blocks of any length (symbolic-"
             "length statement lists): next/prev inverse with InvalidCursor exactly at the edges, before/after/anchor, "
             "block indexing and slicing, expand clipping, parent/child; _children is checked against the ASDL text "
             "parsed from LoopIR.py on every run (every constructor's child fields in declaration order); find "
             "returns exactly the n-th match of the pre-order traversal (symbolic n), all matches, or raises; the two "
             "regular expressions that parse '#n' are proved to agree for all strings with z3's regex theory.",
        design_ref="3/C16",
        note="The match relation match_e/match_stmts is taken as the definition of 'matches'; pyparser.pattern is "
             "assumed; find is checked on one procedure containing every constructor (23 patterns, 2 scopes).",
        technique=_T + "; z3 regular-expression theory for the '#n' syntax agreement"),
    "C17": dict(
        text="PrintEnv.get_name/push are proved to maintain, from an arbitrary state satisfying it, the invariant "
             "that the scope chain maps live symbols injectively to strings and that every string handed out is "
             "recorded (names as an uninterpreted sort, loop cut on the candidate search).",
        design_ref="3/C17",
        note="Not covered: operator precedence printing and the parse-print round trip (no parser semantics in "
             "reach); termination of the candidate loop; the printer's stack discipline is read off the code.",
        technique=_T + "; inductive invariant step on an arbitrary abstract state"),
    "C18": dict(
        text="Every place in the four anchor files where an unordered value (set, Sym-keyed container) is consumed "
             "in order is an obligation discharged by an ordering rule (int elements, order-insensitive body, sorted "
             "with an injective key, ...); Sym.__lt__ is proved a strict total order consistent with __eq__ and "
             "invariant under a uniform shift of the symbol counter; every keyed sorted/sort/min/max in the anchor "
             "files is an obligation that its key renders nothing to text or numbers (repr/str/format/id/hash), so an "
             "order depends on symbols only through Sym.__lt__.",
        design_ref="3/C18, 2.6-D",
        note="Assumes injectivity of two sort keys (extern name+type, memory names), order-insensitivity of calls "
             "in pure position, and everything outside the four anchor files (unification variable order, z3 "
             "model choice).",
        technique="ordering obligations generated from the AST (unordered-origin analysis) discharged with z3; value contract on Sym.__lt__"),
    "C19": dict(
        text="Frame contracts (field-wise equality of ADT nodes as oracle) on real procedures: partial_eval replaces "
             "every read of a bound argument (body, types, predicates, windows, call arguments) by the literal and "
             "removes exactly those arguments; transpose permutes shape, every access and every stride() - in the body "
             "and the assertions - by one permutation; set_memory/set_window/set_precision, parallelize_loop, rename, "
             "make_instr, add_assertion change only their documented field.",
        design_ref="3/C19",
        note="Semantic preservation follows from the frame only by the argument that untouched fields are the loop "
             "nest; parse_fragment and _replace_reads/_replace_writes are assumed.",
        technique=_T + "; frame postconditions over real ADT trees"),
}

_PLANNED = "planned in DESIGN.md but the contracts are not built yet; not claimed on the strength of the design"
NOT_APPLICABLE = {
    "C14": "needs a formal semantics of vendor intrinsics (AVX2/AVX-512 C fragments); no contract over code in /repo can state it - any contract would be the assumption the property asks to check",
}
for _k in ():
    NOT_APPLICABLE.setdefault(_k, _PLANNED)
