"""What MANIFEST.json claims (single source; gen_manifest.py renders it)."""

ENGINES = [
    dict(name="pyvc", path="/verif/pyvc", serves_properties=[],
         kind_free_text="self-built deductive verifier for a Python subset: path-wise symbolic execution of the real "
                        "source AST (concrete types, symbolic values), sidecar contracts, z3 back end, concrete replay "
                        "of counter-models against the real functions under CPython"),
]

CLAIMS = {
    "C13": dict(
        text="Every arithmetic operator of IndexRange, the recursive range analysis (structural induction with the "
             "contract as induction hypothesis), constant_bound and the IndexRangeEnvironment queries are proved "
             "gamma-sound against floor-division semantics for all integer bounds and values; obligations are "
             "generated from the current source on every run and discharged by z3.",
        design_ref="3/C13",
        note="Assumes pyvc's Python semantics, z3, LoopIR_Compare.match_e (used by the join) returning True only for "
             "expressions of equal value, Check_ExprBound (slow path of arg_range_analysis) and the enumerated "
             "constructor shapes of expressions; the stdlib mirror is covered through the shared IndexRange class only.",
        technique="deductive verification: VCs from the Python AST by symbolic execution + z3, modular callee contracts, structural induction",
    ),
}

_PLANNED = "planned in DESIGN.md but the contracts are not built yet; not claimed on the strength of the design"
NOT_APPLICABLE = {
    "C14": "needs a formal semantics of vendor intrinsics (AVX2/AVX-512 C fragments); no contract over code in /repo can state it - any contract would be the assumption the property asks to check",
}
for _k in ("C01 C02 C03 C04 C05 C06 C07 C08 C09 C10 C11 C12 C15 C16 C17 C18 C19").split():
    NOT_APPLICABLE.setdefault(_k, _PLANNED)
