"""CPython cross-check of the interpreter (DESIGN 2.2): for every contract with
a native entry point, N random concrete inputs are run through pyvc's
interpreter (concrete mode) and through the real function under CPython; any
difference in result or exception kind is an engine bug (exit 3)."""
from __future__ import annotations
import copy, random, traceback
from . import sym as S
from .sym import ConcreteCtx, PathInfeasible, Unsupported
from .contract import Args
from .run import G, DriverPolicy, ensure_repo_on_path, repo_root, load_target, _bind_nested
from .interp import Interp, Policy, ProgExc, SourceIndex
from .replay import show


import re as _re

def _norm(text):
    """results are compared as text; unique ids of freshly created symbols
    (Sym repr `name_<id>`) and object addresses differ between the two runs"""
    text = _re.sub(r"_(\d+)\b", "_#", text)
    return _re.sub(r"0x[0-9a-f]+", "0x#", text)


class _NoModular(DriverPolicy):
    def on_call(self, interp, fn, args, kwargs):
        return NotImplemented

    def on_loop(self, interp, node, frame):
        return None


def crosscheck_contract(c, n=40, seed=0):
    """returns (runs, disagreements[list of text], skipped reason or None)"""
    ensure_repo_on_path()
    rng = random.Random(seed)
    runs, bad = 0, []
    if c.entry is not None and c.native_entry is None:
        return 0, [], "custom entry"
    if c.loops or getattr(c, "no_crosscheck", False):
        # contracts that cut loops havoc program variables with abstract
        # values: their generators are not meant to be run concretely
        return 0, [], "loop-cut contract"
    for k in range(n):
        st = rng.getstate()
        outs = []
        for mode in ("interp", "native"):
            rng.setstate(st)
            ctx = ConcreteCtx(rng=rng, lo=-(k % 7 + 1), hi=(k % 7 + 1))
            old = S.set_ctx(ctx)
            try:
                g = G(ctx)
                pol = _NoModular(c, repo_root())
                it = Interp(pol, SourceIndex())
                kind, fn, rest = load_target(c, it, repo_root())
                if c.setup:
                    c.setup(g)
                nested_fn = None
                if kind == "nested":
                    if c.native_entry is None:
                        return runs, bad, "nested target without native entry"
                    if mode == "interp" and "expr" not in getattr(fn, "__code__", None).co_varnames[:fn.__code__.co_argcount]:
                        # run the enclosing function up to the nested def (consumes the
                        # same random leaves as outer_inputs in native mode)
                        nested_fn = _bind_nested(c, it, fn, rest, g)
                    else:
                        g.ghost["outer"] = Args(**c.outer_inputs(g))
                argd = dict(c.gen(g)) if c.gen else {}
                ghost = argd.pop("__ghost__", {})
                a = Args(**argd); a.ghost = Args(**ghost); a.g = g
                try:
                    if not all(bool(p(a)) for p in c.pre):
                        outs.append(("skip", None)); continue
                except PathInfeasible:
                    outs.append(("skip", None)); continue
                try:
                    if mode == "native":
                        if c.native_entry is not None:
                            r = c.native_entry(g, fn, a)
                        else:
                            pos = argd.pop("__args__", None)
                            r = fn(*pos, **argd) if pos is not None else fn(**argd)
                    else:
                        if nested_fn is not None:
                            pos = argd.get("__args__")
                            if c.entry is not None:
                                r = c.entry(g, it, nested_fn, a)
                            elif pos is not None:
                                r = it.call(nested_fn, list(pos), {x: v for x, v in argd.items() if x != "__args__"})
                            else:
                                r = it.call(nested_fn, [], dict(argd))
                        elif kind == "nested":
                            # interpret the enclosing function on the same inputs
                            outer = g.ghost["outer"]
                            r = it.call(fn, [], dict(outer.__dict__, expr=a.expr)) if hasattr(a, "expr") else None
                        elif c.entry is not None:
                            r = c.entry(g, it, fn, a)
                        else:
                            pos = argd.get("__args__")
                            if pos is not None:
                                r = it.call(fn, list(pos), {x: v for x, v in argd.items() if x != "__args__"})
                            else:
                                r = it.call(fn, [], dict(argd))
                    outs.append(("ok", _norm(show(r))))
                except ProgExc as pe:
                    outs.append(("exc", type(pe.exc).__name__))
                except Unsupported as u:
                    outs.append(("unsupported", str(u)))
                except (PathInfeasible,):
                    outs.append(("skip", None))
                except Exception as e:
                    outs.append(("exc", type(e).__name__))
            finally:
                S.set_ctx(old)
        if len(outs) == 2 and outs[0][0] != "skip" and outs[1][0] != "skip":
            runs += 1
            if outs[0][0] == "unsupported":
                continue
            if outs[0] != outs[1]:
                bad.append(f"{c.id}: interpreter {outs[0]} vs CPython {outs[1]} (seed {seed}, run {k})")
    return runs, bad, None
