"""Path enumeration, modular calls, loop cut points, obligation bookkeeping."""
from __future__ import annotations
import ast, importlib, os, sys, time, traceback, types
from . import sym as S
from .sym import (Ctx, ConcreteCtx, Unsupported, PathInfeasible, PathEnd, SInt, SBool)
from .interp import Interp, Policy, ProgExc, IFunc, IBound, SourceIndex, deep_concrete
from .contract import Contract, Args, REGISTRY, FRAME_LABEL, module_fingerprint, module_writes


def repo_root():
    return os.path.realpath(os.environ.get("VERIF_REPO", "/repo"))


def ensure_repo_on_path():
    src = os.path.join(repo_root(), "src")
    if sys.path[0] != src:
        sys.path.insert(0, src)
    return src


SHARED_INDEX = SourceIndex()   # parsed once per process (pre-loaded before forking)


class G:
    """Generator handle passed to `inputs`: wraps the active path context."""
    def __init__(self, ctx):
        self.ctx = ctx
        self.ghost = ctx.ghost

    @property
    def concrete(self):
        return self.ctx.concrete

    def int(self, name):
        return self.ctx.fresh_int(name)

    def bool(self, name):
        return self.ctx.fresh_bool(name)

    def choose(self, options, label=""):
        options = list(options)
        return options[self.ctx.choose(len(options), label)]

    def optint(self, name):
        return None if self.ctx.choose(2, name) == 0 else self.ctx.fresh_int(name)

    def assume(self, c):
        self.ctx.assume(c)

    def nat(self, name):
        v = self.ctx.fresh_int(name)
        if self.ctx.concrete:
            return v if v >= 0 else -v
        self.ctx.assume(v >= 0)
        return v

    def pos(self, name):
        v = self.ctx.fresh_int(name)
        if self.ctx.concrete:
            return v if v >= 1 else 1 - v
        self.ctx.assume(v >= 1)
        return v


class TargetResult:
    def __init__(self, cid):
        self.cid = cid
        self.obligations = {}     # (label, trace) -> Obligation
        self.paths = 0
        self.normal_paths = 0
        self.exc_paths = 0
        self.infeasible = 0
        self.unsupported = []     # messages
        self.errors = []
        self.solver_time = 0.0
        self.wall = 0.0
        self.assumed = set()
        self.functions = set()
        self.samples = []
        self.canary_ok = False
        self.choices = {}         # (label, trace) -> (choices_made)
        self.backends = {}
        self.pending = []

    def summary(self):
        by = {"discharged": 0, "refuted": 0, "unknown": 0}
        for ob in self.obligations.values():
            by[ob.status] = by.get(ob.status, 0) + 1
        return by


class DriverPolicy(Policy):
    def __init__(self, contract: Contract, root):
        self.c = contract
        self.root = os.path.join(root, "src") + os.sep
        self.rootdir = root
        self.active = []      # qualnames currently under modular treatment
        self.loop_ordinals = {}
        self.entered = False  # the target's own top-level call is executed, not abstracted

    def is_repo_file(self, filename):
        return os.path.realpath(filename).startswith(self.root)

    def _qual(self, fn):
        q = getattr(fn, "__qualname__", None)
        return q.replace(".<locals>", "") if q else None

    def on_call(self, interp, fn, args, kwargs):
        q = self._qual(fn)
        if q is None:
            return NotImplemented
        if isinstance(fn, types.FunctionType) and getattr(fn, "__module__", None) in self.c.native_modules \
                and q not in self.c.callees:
            try:
                return fn(*args, **kwargs)
            except (Unsupported, PathInfeasible, PathEnd, ProgExc):
                raise
            except Exception as e:
                raise ProgExc(e)
        if q in self.c.natives and isinstance(fn, types.FunctionType):
            try:
                return fn(*args, **kwargs)
            except (Unsupported, PathInfeasible, PathEnd, ProgExc):
                raise
            except Exception as e:
                raise ProgExc(e)
        cal = self.c.callees.get(q)
        if cal is None:
            return NotImplemented
        if q == self.c.qualname and not self.entered:
            self.entered = True
            return NotImplemented
        if not (isinstance(fn, IFunc) or isinstance(fn, types.FunctionType)):
            return NotImplemented
        return self.apply_callee(interp, cal, fn, args, kwargs)

    def apply_callee(self, interp, cal, fn, args, kwargs):
        ctx = S.cur()
        a = self.bind_args(interp, fn, args, kwargs)
        if cal.requires is not None:
            ctx.prove(cal.requires(a), f"call {cal.qualname}: precondition")
        g = G(ctx)
        res = cal.result(g, a) if cal.result is not None else None
        a.result = res
        if cal.ensures is not None:
            ctx.assume(cal.ensures(a))
        if cal.assumed:
            ctx.assumed.append(cal.qualname)
        return res

    def bind_args(self, interp, fn, args, kwargs):
        f = fn if isinstance(fn, IFunc) else interp.wrap_real(fn)
        from .interp import Frame
        fr = Frame({}, None, f.globals, f)
        interp.bind(f, fr, args, kwargs)
        return Args(**fr.vars)

    # loops --------------------------------------------------------------
    def on_loop(self, interp, node, frame):
        if not self.c.loops:
            return None
        f = frame
        while f is not None and f.func is None:
            f = f.parent
        if f is None:
            return None
        q = f.func.__qualname__.replace(".<locals>", "")
        loops = [n for n in ast.walk(f.func.node) if isinstance(n, (ast.For, ast.While))
                 and _owner(f.func.node, n)]
        loops.sort(key=lambda n: (n.lineno, n.col_offset))
        try:
            k = loops.index(node)
        except ValueError:
            return None
        spec = self.c.loops.get((q, k))
        if spec is None:
            return None
        return lambda it, st, fr, iterable: self.cut_loop(it, st, fr, iterable, spec, f"{q}#loop{k}")

    def cut_loop(self, interp, st, frame, iterable, spec, name):
        """Classic cut: prove the invariant on entry, havoc, assume it, then
        either leave the loop or run one iteration and re-prove it."""
        if not isinstance(st, ast.While):
            raise Unsupported("invariant on a for loop")
        ctx = S.cur()
        env = _EnvView(frame)
        ctx.prove(spec.invariant(env), f"{name}: invariant holds on entry")
        g = G(ctx)
        for nm, gen in spec.havoc.items():
            frame.store(nm, gen(g))
        ctx.assume(spec.invariant(env))
        before = spec.decreases(env) if spec.decreases else None
        if interp.truthy(interp.ev(st.test, frame)):
            try:
                interp.exec_block(st.body, frame)
            except Exception as e:
                from .interp import _Break, _Continue
                if isinstance(e, _Break):
                    return
                if not isinstance(e, _Continue):
                    raise
            ctx.prove(spec.invariant(env), f"{name}: invariant preserved")
            if before is not None:
                after = spec.decreases(env)
                ctx.prove(S.And(after < before, before >= 0), f"{name}: measure decreases")
            raise PathEnd()
        interp.exec_block(st.orelse, frame)


def _owner(fnode, n):
    """n belongs to fnode directly (not to a nested def)."""
    stack = list(fnode.body)
    while stack:
        x = stack.pop()
        if x is n:
            return True
        if isinstance(x, (ast.FunctionDef, ast.Lambda, ast.ClassDef)):
            continue
        stack.extend(ast.iter_child_nodes(x))
    return False


class _EnvView:
    def __init__(self, frame):
        object.__setattr__(self, "_f", frame)

    def __getattr__(self, k):
        return self._f.lookup(k)


def load_target(c: Contract, interp: Interp, root):
    """Return the function object (real or IFunc) the contract is about."""
    ensure_repo_on_path()
    path = os.path.join(root, c.file)
    rel = os.path.relpath(path, os.path.join(root, "src"))
    modname = rel[:-3].replace(os.sep, ".")
    mod = importlib.import_module(modname)
    if os.path.realpath(mod.__file__) != os.path.realpath(path):
        raise RuntimeError(f"{modname} imported from {mod.__file__}, expected {path}")
    c.module = mod
    obj = mod
    parts = c.qualname.split(".")
    for i, p in enumerate(parts):
        if isinstance(obj, (types.FunctionType,)):
            return ("nested", obj, parts[i:])
        try:
            nxt = obj.__dict__[p] if isinstance(obj, type) else getattr(obj, p)
        except (AttributeError, KeyError):
            raise Unsupported(f"target {c.qualname} not found in {c.file}")
        if isinstance(nxt, (staticmethod, classmethod)):
            nxt = nxt.__func__
        obj = nxt
    if isinstance(obj, property):
        obj = obj.fget
    return ("direct", obj, [])


class _NestedFound(Exception):
    def __init__(self, f):
        self.f = f


class _NestedPolicy(DriverPolicy):
    """Runs the enclosing function until the nested def is bound."""
    def __init__(self, contract, root, names):
        super().__init__(contract, root)
        self.names = names


def run_path(c: Contract, prefix, timeout_ms, root, src_index, res: TargetResult,
             concrete=None):
    ctx = concrete if concrete is not None else Ctx(prefix, timeout_ms,
                                                   rlimit=getattr(c, "rlimit", None))
    old = S.set_ctx(ctx)
    pol = DriverPolicy(c, root)
    it = Interp(pol, src_index)
    status = "ok"
    try:
        try:
            kind, fn, rest = load_target(c, it, root)
            g = G(ctx)
            if c.setup:
                c.setup(g)
            if kind == "nested":
                fn = _bind_nested(c, it, fn, rest, g)
            argd = dict(c.gen(g)) if c.gen else {}
            ghost = argd.pop("__ghost__", {})
            a = Args(**argd)
            a.ghost = Args(**ghost)
            a.g = g
            for p in c.pre:
                ctx.assume(p(a))
            a.exc = None
            a.result = None
            fp0 = module_fingerprint()
            try:
                if c.entry is not None:
                    a.result = c.entry(g, it, fn, a)
                else:
                    pos = argd.get("__args__")
                    if pos is not None:
                        kw = {k: v for k, v in argd.items() if k != "__args__"}
                        a.result = it.call(fn, list(pos), kw)
                    else:
                        a.result = it.call(fn, [], dict(argd))
            except ProgExc as pe:
                a.exc = pe.exc
            res.functions.update(it.calls)
            a.global_writes = [w for w in module_writes(fp0) if w not in c.modifies]
            ctx.prove(not a.global_writes, FRAME_LABEL, detail=", ".join(a.global_writes))
            if a.exc is None:
                res.normal_paths += 1
                if not res.canary_ok and ctx.feasible():
                    res.canary_ok = True
                for label, fn_ in c.post:
                    ctx.prove(fn_(a), label)
            else:
                res.exc_paths += 1
                allowed = False
                for exc, when, label in c.exc_ok:
                    if isinstance(a.exc, exc):
                        allowed = True
                        if when is not None:
                            ctx.prove(when(a), label)
                        else:
                            ctx.prove(True, label)
                if not allowed:
                    ctx.prove(False, f"no {type(a.exc).__name__} exit",
                              detail=f"{type(a.exc).__name__}: {str(a.exc)[:200]}")
                for label, fn_ in c.exc_post:
                    ctx.prove(fn_(a), label)
        except PathInfeasible:
            res.infeasible += 1
            status = "infeasible"
        except PathEnd:
            status = "cut"
        except Unsupported as u:
            res.unsupported.append(str(u))
            status = "unsupported"
        except ProgExc as pe:
            res.errors.append(f"exception in contract code: {pe.exc!r}")
            status = "error"
        except RecursionError:
            res.unsupported.append("python recursion limit")
            status = "unsupported"
    finally:
        S.set_ctx(old)
    res.paths += 1
    res.solver_time += getattr(ctx, "solver_time", 0.0)
    res.assumed.update(ctx.assumed)
    for k, v in getattr(ctx, "backend_used", {}).items():
        res.backends[k] = res.backends.get(k, 0) + v
    occ = {}
    for ob in ctx.obligations:
        k0 = (ob.label, ob.trace)
        occ[k0] = occ.get(k0, 0) + 1
        # the n-th obligation with the same clause at the same branch point is
        # a distinct obligation (several call sites between two branches)
        key = (ob.label if occ[k0] == 1 else f"{ob.label} [#{occ[k0]}]", ob.trace)
        if key not in res.obligations:
            ob.label = key[0]
            res.obligations[key] = ob
            res.choices[key] = list(getattr(ctx, "choices_made", []))
    return ctx, status


def _bind_nested(c, it, outer, rest, g):
    """Execute the enclosing function(s) with the contract's `outer_inputs`
    until the nested def named rest[0] is bound; return that closure."""
    if c.outer_inputs is None:
        raise Unsupported(f"nested target {c.qualname} needs outer_inputs")
    target_name = rest[0]
    f = it.wrap_real(outer)
    from .interp import Frame
    frame = Frame({}, f.frame, f.globals, f)
    argd = c.outer_inputs(g)
    it.bind(f, frame, [], argd)
    g.ghost["outer"] = Args(**frame.vars)
    found = _exec_until_def(it, f.node.body, frame, target_name)
    if found is None:
        raise Unsupported(f"nested def {target_name} not reached in {outer.__qualname__}")
    if len(rest) > 1:
        raise Unsupported("doubly nested targets")
    return found


def _exec_until_def(it, body, frame, name):
    """Run the enclosing body up to the target def, then also bind the defs
    that follow it directly (sibling closures that the target may call)."""
    found = None
    for st in body:
        if found is not None:
            if isinstance(st, ast.FunctionDef):
                it.exec(st, frame)
                continue
            break
        if isinstance(st, ast.FunctionDef) and st.name == name:
            it.exec(st, frame)
            found = frame.vars[name]
            continue
        it.exec(st, frame)
    return found


def run_contract(c: Contract, timeout_ms=10000, max_paths=20000, root=None,
                 prefixes=((),), expand=True):
    """Explore the path tree below each of `prefixes`.  With expand=False only
    the given paths are run and the alternatives they discover are returned in
    res.pending (used by the driver to spread sub-trees over processes)."""
    root = root or repo_root()
    ensure_repo_on_path()
    res = TargetResult(c.id)
    res.pending = []
    t0 = time.time()
    src_index = SHARED_INDEX
    work = [tuple(p) for p in prefixes]
    tmo = c.timeout_ms or timeout_ms
    while work:
        prefix = work.pop()
        if res.paths >= max_paths:
            res.unsupported.append(f"path budget {max_paths} exceeded")
            break
        try:
            ctx, status = run_path(c, prefix, tmo, root, src_index, res)
        except Exception as e:
            res.errors.append("checker crash: " + "".join(traceback.format_exception(e))[-1500:])
            break
        if expand:
            work.extend(ctx.alts)
        else:
            res.pending.extend(tuple(x) for x in ctx.alts)
    res.wall = time.time() - t0
    return res


def merge_results(a: TargetResult, b: TargetResult):
    for k, ob in b.obligations.items():
        if k not in a.obligations:
            a.obligations[k] = ob
            a.choices[k] = b.choices.get(k, [])
    a.paths += b.paths
    a.normal_paths += b.normal_paths
    a.exc_paths += b.exc_paths
    a.infeasible += b.infeasible
    a.unsupported += b.unsupported
    a.errors += b.errors
    a.solver_time += b.solver_time
    a.wall = max(a.wall, b.wall)
    a.assumed |= b.assumed
    a.functions |= b.functions
    a.canary_ok = a.canary_ok or b.canary_ok
    for k, v in getattr(b, "backends", {}).items():
        a.backends[k] = a.backends.get(k, 0) + v
    return a
