"""Sidecar contracts: registry and the small DSL (DESIGN 2.4).

A contract is attached to a function of /repo by (file relative to the repo
root, dotted qualname).  Everything in a contract is plain Python that is run
natively on proxy values:

    c = contract("C13", "src/exo/rewrite/range_analysis.py", "IndexRange.__add__")
    @c.inputs            # enumerates argument *shapes*, leaves are symbolic
    def _(g): ...        # returns dict(param -> value)
    @c.requires          # precondition, assumed
    def _(a): ...
    @c.ensures("label")  # postcondition, one obligation per path
    def _(a): ...        # a.<param>, a.result
    c.raises(AssertionError, when=lambda a: ...)   # allowed exceptional exits
"""
from __future__ import annotations
import types

REGISTRY = {}          # id -> Contract

FRAME_LABEL = "frame: no module-level state of exo is written"
# memo tables of new_eff keyed by the callee's proc object (an immutable LoopIR node, hashed by identity);
# an entry is computed from the key alone: globenv(proc.body), the proc's effects, its simplified copy
DEFAULT_MODIFIES = {"exo.rewrite.new_eff:_globenv_proc_cache", "exo.rewrite.new_eff:_proc_effs_cache",
                    "exo.rewrite.new_eff:_simple_proc_cache", "exo.rewrite.new_eff:_proc_changeset_cache",
                    "exo.rewrite.new_eff:_overapprox_proc_cache"}
FRAME_ASSUMPTION = ("frame: inserting entries keyed by a LoopIR.proc object (immutable, hashed by identity) into a "
                    "module-level table is not counted as a write - the shape of the five memo tables of new_eff "
                    "(_globenv_proc_cache, _proc_effs_cache, _simple_proc_cache, _proc_changeset_cache, "
                    "_overapprox_proc_cache), whose entries are assumed to be computed from the key alone; every "
                    "other change of a module-level container of exo.* is a failed frame obligation")


def module_state():
    """Every mutable container reachable in one step from an exo module (module
    globals and attributes of classes defined there)."""
    import sys, collections, weakref
    cont = (dict, list, set, collections.ChainMap, weakref.WeakKeyDictionary,
            weakref.WeakValueDictionary, weakref.WeakSet)
    out = {}
    for mn, m in list(sys.modules.items()):
        if m is None or not (mn == "exo" or mn.startswith("exo.")):
            continue
        for k, v in list(vars(m).items()):
            if k.startswith("__"):
                continue
            if isinstance(v, cont):
                out[f"{mn}:{k}"] = v
            elif isinstance(v, type) and getattr(v, "__module__", None) == mn:
                for ck, cv in list(vars(v).items()):
                    if not ck.startswith("__") and isinstance(cv, cont):
                        out[f"{mn}:{v.__name__}.{ck}"] = cv
    return out


def _fp(v):
    try:
        n = len(v)
        if n > 512:
            return (n,)
        if hasattr(v, "items"):
            return (n, tuple((id(a), id(b)) for a, b in list(v.items())))
        if isinstance(v, list):
            return (n, tuple(id(x) for x in v))
        return (n, tuple(sorted(id(x) for x in list(v))))
    except Exception:
        return None


def module_fingerprint():
    return {k: _fp(v) for k, v in module_state().items()}


def _proc_keyed_insert(container, fp_before):
    """the only change is the insertion of entries whose keys are LoopIR.proc objects (immutable nodes hashed by
    identity): the shape of a memo table of a function of a procedure"""
    try:
        from exo.core.LoopIR import LoopIR
        if not hasattr(container, "items") or fp_before is None or len(fp_before) != 2:
            return False
        old = set(fp_before[1])
        now = {(id(a), id(b)): a for a, b in list(container.items())}
        if not old <= set(now):
            return False
        return all(isinstance(k, LoopIR.proc) for pair, k in now.items() if pair not in old)
    except Exception:
        return False


def module_writes(before):
    state = module_state()
    out = []
    for k, c in state.items():
        if k not in before:
            continue
        v = _fp(c)
        if before[k] != v and not _proc_keyed_insert(c, before[k]):
            out.append(k)
    return sorted(out)


class Args(types.SimpleNamespace):
    pass


class Contract:
    def __init__(self, prop, file, qualname, name=None, kind="value"):
        self.prop = prop
        self.file = file
        self.qualname = qualname
        self.id = name or f"{file}::{qualname}"
        self.kind = kind
        self.gen = None
        self.pre = []
        self.post = []           # (label, fn)
        self.exc_ok = []         # (exc class, when fn | None, label)
        self.exc_post = []       # (label, fn(a) with a.exc)
        self.callees = {}        # qualname -> Callee
        self.natives = set()     # qualnames of repo functions that may run natively
        self.native_modules = set()  # modules whose functions run natively (verified elsewhere)
        self.loops = {}          # (qualname, ordinal) -> LoopSpec
        self.module = None
        self.setup = None        # fn(g) run before inputs (ghost state)
        self.entry = None        # custom entry: fn(g, interp, target) -> result
        self.notes = []
        self.bounded = None
        self.outer_inputs = None # for nested targets: inputs of the enclosing function
        self.native_entry = None  # fn(g, fn, a): native call used by the replay
        self.known = {}          # label -> known-finding id (documentation only)
        self.timeout_ms = None
        self.modifies = set(DEFAULT_MODIFIES)    # module-level containers the target may write ("module:name")
        if self.id in REGISTRY:
            raise ValueError(f"duplicate contract {self.id}")
        REGISTRY[self.id] = self

    # decorators -------------------------------------------------------------
    def inputs(self, fn):
        self.gen = fn
        return fn

    def requires(self, fn):
        self.pre.append(fn)
        return fn

    def ensures(self, label):
        def deco(fn):
            self.post.append((label, fn))
            return fn
        return deco

    def raises(self, exc, when=None, label=None):
        self.exc_ok.append((exc, when, label or f"raises {exc.__name__} only when allowed"))
        return self

    def ensures_on_raise(self, label):
        def deco(fn):
            self.exc_post.append((label, fn))
            return fn
        return deco

    def callee(self, qualname, result=None, requires=None, ensures=None, assumed=True,
               note=""):
        """Modular treatment of a callee: its body is not executed; `requires`
        becomes an obligation at the call site, the result is `result(g, a)`
        (fresh symbolic, shape-enumerated) and `ensures` is assumed."""
        self.callees[qualname] = Callee(qualname, result, requires, ensures, assumed, note)
        return self

    def native(self, *qualnames):
        self.natives.update(qualnames)
        return self

    def loop(self, qualname, ordinal, invariant, havoc, decreases=None):
        self.loops[(qualname, ordinal)] = LoopSpec(invariant, havoc, decreases)
        return self

    def note(self, s):
        self.notes.append(s)
        return self

    def modifies_globals(self, *names):
        self.modifies.update(names)
        return self


class Callee:
    def __init__(self, qualname, result, requires, ensures, assumed, note):
        self.qualname = qualname
        self.result = result
        self.requires = requires
        self.ensures = ensures
        self.assumed = assumed
        self.note = note


class LoopSpec:
    def __init__(self, invariant, havoc, decreases):
        self.invariant = invariant
        self.havoc = havoc
        self.decreases = decreases


def contract(prop, file, qualname, **kw):
    return Contract(prop, file, qualname, **kw)
