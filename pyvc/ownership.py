"""Sub-engine D (DESIGN 2.6): frame / ownership and iteration-order obligations.

A flow-sensitive abstract interpreter over the *real* AST of the repository
files (re-parsed on every run from pyvc.run.repo_root()).  Every local gets an
abstract value = a set of origin atoms:

  ("I", kind)      immutable scalar / function / class object
  ("F", sid)       object allocated in this call (allocation site `sid`)
  ("O", sid)       object allocated by a method of `self` and reached through a
                   field of `self`
  ("P", name)      parameter (borrowed)
  ("B", why)       borrowed: attribute load, subscript load of a borrowed
                   container, result of an un-contracted call, ...
  ("G", mod, name) module-level object
  ("S",)           self

Allocation sites carry a kind (list/dict/set/tuple/obj/node/iter/val), the join
of the origins of their elements (`elem`, `kelem` for dict keys), per-index
items for tuples and a field table for objects.  Site tables, class-field
summaries and function return summaries are flow-insensitive and monotone; the
whole program is re-analysed until they are stable.

Consumers: contracts/c07_purity.py (mutation sites -> frame obligations) and
contracts/c18_determinism.py (ordered consumption of unordered values).
"""
from __future__ import annotations
import ast, os, glob, time

# --------------------------------------------------------------------------- #
# tables

MUTATORS = {"append", "extend", "insert", "pop", "remove", "sort", "reverse", "clear", "update",
            "add", "discard", "setdefault", "popitem", "appendleft", "popleft",
            "difference_update", "intersection_update", "symmetric_difference_update"}
CONTAINER_CTORS = {"list": "list", "dict": "dict", "set": "set", "frozenset": "set", "sorted": "list",
                   "tuple": "tuple", "OrderedDict": "dict", "defaultdict": "dict",
                   "WeakKeyDictionary": "dict", "WeakValueDictionary": "dict", "Counter": "dict",
                   "deque": "list", "ChainMap": "dict", "WeakSet": "set", "bytearray": "list"}
IMM_BUILTINS = {"len", "int", "str", "bool", "float", "isinstance", "issubclass", "hasattr", "type", "id",
                "hash", "repr", "abs", "any", "all", "ord", "chr", "callable", "print", "format", "round",
                "divmod", "pow", "range", "input", "bin", "hex", "oct", "bytes", "complex", "object",
                "is_pos_int", "is_valid_name"}
INPLACE_OPS = {ast.Add: "iadd", ast.BitOr: "ior", ast.BitAnd: "iand", ast.Sub: "isub", ast.BitXor: "ixor",
               ast.Mult: "imul"}
ADT_MODULES = {"LoopIR", "T", "UAST", "PAST", "CIR", "A", "E", "V", "D", "LS", "ES"}
PASS_BASES = {"LoopIR_Rewrite", "LoopIR_Do", "Cursor_Rewrite", "LoopIR_Compare"}

ORDER_NEUTRAL_CALLEES = {
    # consumers whose result does not depend on the iteration order of their argument, and
    # wrappers through which the order property is propagated by the interpreter itself
    "set", "frozenset", "len", "any", "all", "sum", "sorted", "list", "tuple", "deque", "enumerate", "zip",
    "isinstance", "min", "max", "dict", "reversed", "iter", "next", "filter", "map", "bool", "id", "type",
    "hasattr", "chain", "join", "Counter",
    # set / dict / list methods taking another collection
    "update", "union", "intersection", "difference", "symmetric_difference", "issubset", "issuperset",
    "isdisjoint", "extend", "difference_update", "intersection_update", "get", "pop", "add", "discard",
    "remove", "copy", "keys", "values", "items", "__contains__", "index", "count", "setdefault",
}
IMM = lambda k="imm": frozenset({("I", k)})
EMPTY = frozenset()


def B(why):
    return frozenset({("B", why)})


class Site:
    __slots__ = ("sid", "kind", "cls", "elem", "kelem", "fields", "items", "desc", "file", "line",
                 "unordered_fill", "sorted_key", "version", "qual", "tainted", "node", "clean")

    def __init__(self, sid, kind, cls, desc, file, line):
        self.sid, self.kind, self.cls, self.desc, self.file, self.line = sid, kind, cls, desc, file, line
        self.elem = EMPTY
        self.kelem = EMPTY
        self.fields = {}
        self.items = None
        self.unordered_fill = False   # dict filled inside a loop over an unordered value
        self.tainted = frozenset()    # roots (unordered sites) whose iteration order this list's order depends on
        self.clean = False            # result of sorted(): order fixed by the sort
        self.qual = ""
        self.node = None
        self.sorted_key = None        # for sorted(): text of the key (or "" for none)


class ModInfo:
    def __init__(self, rel, path, src):
        self.rel, self.path, self.src = rel, path, src
        self.tree = ast.parse(src)
        for n in ast.walk(self.tree):
            for ch in ast.iter_child_nodes(n):
                ch._parent = n
        self.classes, self.functions, self.imports, self.globals = {}, {}, {}, {}
        self.modname = rel[len("src/"):-3].replace("/", ".")
        for st in self.tree.body:
            self._top(st)

    def _top(self, st):
        if isinstance(st, ast.ClassDef):
            self.classes[st.name] = st
        elif isinstance(st, (ast.FunctionDef, ast.AsyncFunctionDef)):
            self.functions[st.name] = st
        elif isinstance(st, ast.ImportFrom):
            for a in st.names:
                self.imports[a.asname or a.name] = (st.level, st.module or "", a.name)
        elif isinstance(st, ast.Import):
            for a in st.names:
                self.imports[(a.asname or a.name).split(".")[0]] = (0, a.name, None)
        elif isinstance(st, ast.Assign):
            for t in st.targets:
                if isinstance(t, ast.Name):
                    self.globals[t.id] = st.value
        elif isinstance(st, ast.AnnAssign) and isinstance(st.target, ast.Name) and st.value is not None:
            self.globals[st.target.id] = st.value
        elif isinstance(st, (ast.If, ast.Try)):
            for sub in ast.iter_child_nodes(st):
                if isinstance(sub, ast.stmt):
                    self._top(sub)


class Program:
    """All modules under src/exo, parsed once per run."""

    def __init__(self, root):
        self.root = root
        self.mods = {}
        for p in sorted(glob.glob(os.path.join(root, "src", "exo", "**", "*.py"), recursive=True)):
            rel = os.path.relpath(p, root)
            try:
                self.mods[rel] = ModInfo(rel, p, open(p).read())
            except SyntaxError:
                pass
        self.by_modname = {m.modname: m for m in self.mods.values()}
        # class hierarchy by simple name (names of classes with methods are unique enough;
        # collisions are merged, which only loses precision)
        self.classes = {}        # name -> list[(ModInfo, ClassDef)]
        for m in self.mods.values():
            for n in ast.walk(m.tree):
                if isinstance(n, ast.ClassDef):
                    self.classes.setdefault(n.name, []).append((m, n))
        self.bases = {}
        for name, defs in self.classes.items():
            bs = set()
            for _, cd in defs:
                for b in cd.bases:
                    bs.add(b.id if isinstance(b, ast.Name) else b.attr if isinstance(b, ast.Attribute) else "?")
            self.bases[name] = bs
        self.subs = {}
        for c, bs in self.bases.items():
            for b in bs:
                self.subs.setdefault(b, set()).add(c)

    def ancestors(self, c):
        out, todo = [], [c]
        while todo:
            x = todo.pop()
            if x in out:
                continue
            out.append(x)
            todo.extend(self.bases.get(x, ()))
        return out

    def descendants(self, c):
        out, todo = [], [c]
        while todo:
            x = todo.pop()
            if x in out:
                continue
            out.append(x)
            todo.extend(self.subs.get(x, ()))
        return out

    def family(self, c):
        return set(self.ancestors(c)) | set(self.descendants(c))

    def resolve_import(self, mod, name):
        """-> ('class'|'func'|'other', ModInfo|None, node|None) for an imported name."""
        seen = set()
        while True:
            if (mod.rel, name) in seen:
                return "other", None, None
            seen.add((mod.rel, name))
            if name in mod.classes:
                return "class", mod, mod.classes[name]
            if name in mod.functions:
                return "func", mod, mod.functions[name]
            if name in mod.globals:
                return "global", mod, mod.globals[name]
            if name in mod.imports:
                level, m, orig = mod.imports[name]
                tgt = self._module(mod, level, m)
                if tgt is None and orig is not None:
                    tgt2 = self._module(mod, level, (m + "." if m else "") + orig)
                    if tgt2 is not None:
                        return "module", tgt2, None
                if tgt is None:
                    return "ext", None, None
                if orig is None:
                    return "module", tgt, None
                mod, name = tgt, orig
                continue
            # star imports
            for st in mod.tree.body:
                if isinstance(st, ast.ImportFrom) and any(a.name == "*" for a in st.names):
                    tgt = self._module(mod, st.level, st.module or "")
                    if tgt is not None:
                        r = self.resolve_import(tgt, name)
                        if r[0] not in ("other", "ext"):
                            return r
            return "other", None, None

    def _module(self, mod, level, m):
        if level == 0:
            full = m
        else:
            parts = mod.modname.split(".")
            if not mod.rel.endswith("__init__.py"):
                parts = parts[:-1]
            if level > 1:
                parts = parts[:-(level - 1)]
            full = ".".join(parts + ([m] if m else []))
        return self.by_modname.get(full) or self.by_modname.get(full + ".__init__")


# --------------------------------------------------------------------------- #
# scopes

_SCOPE_CACHE = {}
_SCOPE_KEEP = []
_UNPARSE = {}


def unparse(n):
    r = _UNPARSE.get(id(n))
    if r is None:
        r = _UNPARSE[id(n)] = ast.unparse(n)
        _SCOPE_KEEP.append(n)
    return r


class Scope:
    """One function (or lambda / class body) being interpreted."""

    def __init__(self, an, mod, node, qual, parent, cls, captured):
        self.an, self.mod, self.node, self.qual, self.parent, self.cls = an, mod, node, qual, parent, cls
        self.captured = captured or {}
        self.params = set()
        self.nonlocals = set()
        self.globals_decl = set()
        self.assigned = set()
        self.nested = []          # (defnode, snapshot env, loop ids)
        self.assign_log = []      # (name, pos, loops, av)
        self.loops = []           # stack of loop node ids
        self.ret = EMPTY
        self.is_method = False
        self.self_name = None
        self.unordered_loops = []  # stack: loops whose iterable is unordered
        if isinstance(node, (ast.FunctionDef, ast.AsyncFunctionDef, ast.Lambda)):
            info = _SCOPE_CACHE.get(id(node))
            if info is None:
                nl, gd, asg, inner_nl = set(), set(), set(), set()
                body = node.body if isinstance(node.body, list) else []
                for st in body:
                    for sub in _walk_same_scope(st):
                        if isinstance(sub, ast.Nonlocal):
                            nl.update(sub.names)
                        elif isinstance(sub, ast.Global):
                            gd.update(sub.names)
                        elif isinstance(sub, ast.Name) and isinstance(sub.ctx, (ast.Store, ast.Del)):
                            asg.add(sub.id)
                        elif isinstance(sub, (ast.FunctionDef, ast.ClassDef, ast.AsyncFunctionDef)):
                            asg.add(sub.name)
                        elif isinstance(sub, (ast.Import, ast.ImportFrom)):
                            for a in sub.names:
                                asg.add((a.asname or a.name).split(".")[0])
                if body:
                    for sub in ast.walk(node):
                        if isinstance(sub, ast.Nonlocal):
                            inner_nl.update(sub.names)
                asg -= nl | gd
                info = (frozenset(nl), frozenset(gd), frozenset(asg), frozenset(inner_nl))
                _SCOPE_CACHE[id(node)] = info
                _SCOPE_KEEP.append(node)
            self.nonlocals, self.globals_decl, self.assigned = set(info[0]), set(info[1]), set(info[2])
            self.inner_nonlocals = info[3]
        else:
            self.inner_nonlocals = frozenset()

    def is_local(self, name):
        return name in self.params or name in self.assigned


def _walk_same_scope(node):
    """ast.walk that does not descend into nested function/class/lambda bodies
    (it yields the def node itself)."""
    todo = [node]
    while todo:
        n = todo.pop()
        yield n
        if isinstance(n, (ast.FunctionDef, ast.AsyncFunctionDef, ast.ClassDef, ast.Lambda)):
            continue
        if isinstance(n, (ast.ListComp, ast.SetComp, ast.DictComp, ast.GeneratorExp)):
            # comprehension targets are not function locals
            for g in n.generators:
                todo.append(g.iter)
                todo.extend(g.ifs)
            if isinstance(n, ast.DictComp):
                todo += [n.key, n.value]
            else:
                todo.append(n.elt)
            continue
        todo.extend(ast.iter_child_nodes(n))


# --------------------------------------------------------------------------- #
# analyzer

class Config:
    """Sidecar annotations (each must be listed with a justification by the user)."""

    def __init__(self, owns_param=None, returns_fresh=None, extern_fresh=None, int_sites=None):
        self.int_sites = int_sites or {}          # site label -> why (elements are ints)
        self.owns_param = owns_param or {}        # (rel, qual) -> {param: why}
        self.returns_fresh = returns_fresh or {}  # simple callee name or "X.meth" -> why
        self.extern_fresh = extern_fresh or {}    # attribute-call texts e.g. "bound_args.arguments"


class Analyzer:
    MAX_ROUNDS = 8

    def __init__(self, root, files, config=None):
        self.t0 = time.time()
        self.prog = Program(root)
        self.files = [f for f in files if f in self.prog.mods]
        self.missing = [f for f in files if f not in self.prog.mods]
        self.cfg = config or Config()
        self.sites = {}
        self.site_by_id = []
        self.field_sum = {}
        self.ret_sum = {}
        self.shared = {}
        self.funcs = {}            # (rel, qual) -> def node
        self.method_index = {}     # meth name -> [(cls, rel, qual, node)]
        self.nested_index = {}     # (rel, outer qual, name) -> qual
        self.mut_sites = {}
        self.order_sites = {}
        self.param_in = {}          # (fkey, param) -> join of actual arguments at resolved call sites
        self.callgraph = {}         # fkey -> {fkey}
        self.unordered_callees = {}
        self.set_ordinals = {}
        self.call_args = []        # (mod, qual, call node, callee simple name, [arg avs], {kw: av})
        self.ret_sites = {}        # (rel, qual) -> [(node, av)]
        self.unsupported = []
        self.changed = False
        self.rounds = 0
        self.rounds_done = False
        self.module_instances = {}  # class name -> [(rel, global name)]
        for rel in self.files:
            m = self.prog.mods[rel]
            for g, rhs in m.globals.items():
                if isinstance(rhs, ast.Call):
                    fn = rhs.func
                    nm = fn.id if isinstance(fn, ast.Name) else None
                    if nm and nm in m.classes:
                        self.module_instances.setdefault(nm, []).append((rel, g))
        self._index()

    # -- indexing ------------------------------------------------------------
    def _index(self):
        for rel in self.files:
            m = self.prog.mods[rel]

            def rec(body, qual, cls):
                for st in body:
                    if isinstance(st, (ast.FunctionDef, ast.AsyncFunctionDef)):
                        q = f"{qual}.{st.name}" if qual else st.name
                        self.funcs[(rel, q)] = st
                        if cls:
                            self.method_index.setdefault(st.name, []).append((cls, rel, q, st))
                        rec(st.body, q, None)
                    elif isinstance(st, ast.ClassDef):
                        q = f"{qual}.{st.name}" if qual else st.name
                        rec(st.body, q, st.name)
                    elif isinstance(st, (ast.If, ast.For, ast.While, ast.With, ast.Try)):
                        subs = [s for s in ast.iter_child_nodes(st) if isinstance(s, ast.stmt)]
                        for h in getattr(st, "handlers", []):
                            subs += h.body
                        rec(subs, qual, cls)
            rec(m.tree.body, "", None)

    # -- sites -----------------------------------------------------------------
    def site(self, node, tag, kind, mod, cls=None, desc=""):
        key = (id(node), tag)
        s = self.sites.get(key)
        if s is None:
            s = Site(len(self.site_by_id), kind, cls, desc, mod.rel, getattr(node, "lineno", 0))
            s.node = node
            self.sites[key] = s
            self.site_by_id.append(s)
            self.changed = True
        return s

    def S(self, sid):
        return self.site_by_id[sid]

    def add_elem(self, av, val, key=None):
        for a in av:
            if a[0] in ("F", "O"):
                s = self.S(a[1])
                if not val <= s.elem:
                    s.elem = s.elem | val
                    self.changed = True
                if key is not None and not key <= s.kelem:
                    s.kelem = s.kelem | key
                    self.changed = True
                if s.items is not None:
                    s.items = None

    def elem_of(self, av, why="element", keys=False):
        out = set()
        for a in av:
            if a[0] in ("F", "O"):
                s = self.S(a[1])
                e = s.kelem if (keys and s.kind == "dict") else s.elem
                if a[0] == "O":
                    e = self.own(e)
                out |= e
            elif a[0] == "I":
                out.add(("I", "str" if a[1] == "str" else "imm"))
            else:
                out.add(("B", f"{why} of borrowed container"))
        return frozenset(out)

    def own(self, av):
        return frozenset(("O", a[1]) if a[0] == "F" else a for a in av)

    def deterministic_set(self, s):
        """Iteration order of this set does not depend on PYTHONHASHSEED / addresses:
        every element is an int/bool/None (hash = value), or the site is annotated."""
        if s.elem and all(x[0] == "I" and x[1] in ("int", "bool", "none") for x in s.elem) and \
                (s.kind != "dict" or all(x[0] == "I" and x[1] in ("int", "bool", "none") for x in s.kelem)):
            return True
        return self.site_label(s) in self.cfg.int_sites

    def site_label(self, s):
        """file::qualname::set#k  (k-th set/dict allocation of that function in source order)"""
        key = (s.file, s.qual)
        tab = self.set_ordinals.get(key)
        if tab is None:
            ss = sorted((x for x in self.site_by_id if x.file == s.file and x.qual == s.qual
                         and x.kind in ("set", "dict") and x.node is not None),
                        key=lambda x: (getattr(x.node, "lineno", 0), getattr(x.node, "col_offset", 0), x.sid))
            tab = {}
            cnt = {}
            for x in ss:
                cnt[x.kind] = cnt.get(x.kind, 0) + 1
                tab[x.sid] = f"{x.file}::{x.qual}::{x.kind}#{cnt[x.kind]}"
            if self.rounds_done:
                self.set_ordinals[key] = tab
        return tab.get(s.sid, "")

    def is_unordered(self, av, depth=0):
        if depth > 6:
            return False
        for a in av:
            if a[0] in ("F", "O"):
                s = self.S(a[1])
                if s.clean:
                    continue
                if s.kind == "set":
                    return True
                if s.kind == "dict" and s.unordered_fill:
                    return True
                if s.kind in ("list", "tuple") and s.tainted:
                    return True
                if s.kind in ("iter", "dict", "list", "tuple") and "__src__" in s.fields and \
                        self.is_unordered(s.fields["__src__"], depth + 1):
                    return True
            elif a[0] == "P" and len(a) > 2:
                v = self.param_in.get((a[2], a[1]))
                if v and self.is_unordered(v, depth + 1):
                    return True
        return False

    def roots(self, av, depth=0, seen=None):
        """Unordered root sites (sets, unordered-filled dicts) an order-dependent value derives from."""
        out = set()
        seen = seen if seen is not None else set()
        if depth > 8:
            return out
        for a in av:
            if a in seen:
                continue
            seen.add(a)
            if a[0] in ("F", "O"):
                s = self.S(a[1])
                if s.clean:
                    continue
                if s.kind == "set" or (s.kind == "dict" and s.unordered_fill):
                    out.add(s.sid)
                if s.tainted:
                    out |= s.tainted
                if "__src__" in s.fields:
                    out |= self.roots(s.fields["__src__"], depth + 1, seen)
            elif a[0] == "P" and len(a) > 2:
                v = self.param_in.get((a[2], a[1]))
                if v:
                    out |= self.roots(v, depth + 1, seen)
        return out

    def reach(self, av, depth=0, seen=None):
        """All sites an abstract value may denote / was derived from (through wrappers and parameters)."""
        out = set()
        seen = seen if seen is not None else set()
        if depth > 8:
            return out
        for a in av:
            if a in seen:
                continue
            seen.add(a)
            if a[0] in ("F", "O"):
                s = self.S(a[1])
                out.add(s.sid)
                if "__src__" in s.fields:
                    out |= self.reach(s.fields["__src__"], depth + 1, seen)
            elif a[0] == "P" and len(a) > 2:
                v = self.param_in.get((a[2], a[1]))
                if v:
                    out |= self.reach(v, depth + 1, seen)
        return out

    def taint(self, av, roots):
        roots = frozenset(roots)
        for a in av:
            if a[0] in ("F", "O"):
                s = self.S(a[1])
                if s.kind in ("list", "tuple", "val"):
                    cur = s.tainted or frozenset()
                    if not roots <= cur or not s.tainted:
                        s.tainted = cur | roots
                        self.changed = True

    def propagate_unordered_callees(self):
        """Effects of functions called from inside a loop over an unordered value
        happen in that arbitrary order: lists they append to become order-tainted."""
        seen = {}
        todo = list(self.unordered_callees.items())
        while todo:
            f, roots = todo.pop()
            if f in seen and roots <= seen[f]:
                continue
            seen[f] = seen.get(f, frozenset()) | roots
            todo.extend((g, seen[f]) for g in self.callgraph.get(f, ()))
        for r in self.mut_sites.values():
            fk = f"{r['mod'].rel}::{r['qual']}"
            if fk in seen and r["kind"] in ("call.append", "call.extend", "call.insert", "iadd"):
                self.taint(r["av"], seen[fk])
        return seen

    # -- driver ------------------------------------------------------------------
    def run(self):
        for r in range(self.MAX_ROUNDS):
            self.rounds = r + 1
            self.changed = False
            self.mut_sites.clear()
            self.order_sites.clear()
            self.call_args = []
            self.ret_sites = {}
            self.callgraph = {}
            self.unordered_callees = {}
            for rel in self.files:
                m = self.prog.mods[rel]
                self._module(m)
            self.in_unordered_funcs = self.propagate_unordered_callees()
            if not self.changed:
                break
        self.rounds_done = True
        return self

    def _module(self, m):
        top = Scope(self, m, m.tree, "", None, None, {})
        interp = Interp(self, top)
        env = {}
        interp.exec_block(m.tree.body, env)
        interp.finish_nested()


class LoopCtx:
    def __init__(self):
        self.breaks = []
        self.continues = []


def join_env(a, b):
    if a is None:
        return b
    if b is None:
        return a
    out = dict(a)
    for k, v in b.items():
        out[k] = out[k] | v if k in out else v
    return out


class Interp:
    def __init__(self, an, scope):
        self.an, self.sc = an, scope
        self.mod = scope.mod
        self.loopstack = []
        self.shared_names = set()
        self.shared_owner = {}
        self.nested_defs = {}   # name -> qual
        self.in_unordered = []  # stack of (loop node) for loops over unordered values
        self.compvars = []      # names bound by enclosing comprehensions
        self._applied = False
        self.outer_defs = None

    # ---- helpers
    def fresh(self, node, tag, kind, elem=EMPTY, cls=None, desc="", kelem=EMPTY):
        s = self.an.site(node, tag, kind, self.mod, cls, desc)
        s.qual = self.sc.qual
        if not elem <= s.elem:
            s.elem |= elem
            self.an.changed = True
        if not kelem <= s.kelem:
            s.kelem |= kelem
            self.an.changed = True
        return s

    def fav(self, *a, **k):
        return frozenset({("F", self.fresh(*a, **k).sid)})

    def shared_key(self, name):
        owner = self.shared_owner.get(name)
        return (owner, name) if owner is not None else None

    def assign_name(self, name, av, env, node):
        sc = self.sc
        if name in sc.globals_decl:
            self.record_mut(node, "global-rebind", None, frozenset({("G", self.mod.rel, name)}), text=name)
            return
        if name in sc.nonlocals or name in self.shared_names:
            key = self.shared_key(name)
            old = self.an.shared.get(key, EMPTY)
            if not av <= old:
                self.an.shared[key] = old | av
                self.an.changed = True
            if name in sc.nonlocals:
                return
        env[name] = av
        pos = (getattr(node, "lineno", 0), getattr(node, "col_offset", 0))
        sc.assign_log.append((name, pos, tuple(id(l) for l in sc.loops), av))

    def lookup(self, name, env):
        sc = self.sc
        if name in self.compvars:
            return env.get(name, EMPTY)
        if name in sc.nonlocals or name in self.shared_names:
            return self.an.shared.get(self.shared_key(name), EMPTY)
        if sc.is_local(name) and not isinstance(sc.node, (ast.Module, ast.ClassDef)):
            return env.get(name, EMPTY)
        if isinstance(sc.node, (ast.Module, ast.ClassDef)) and name in env:
            return env[name]
        if name in sc.captured:
            return sc.captured[name]
        return self.global_name(name)

    def global_name(self, name):
        m = self.mod
        if name in m.classes:
            return IMM("class")
        if name in m.functions:
            return IMM("func")
        if name in m.globals:
            rhs = m.globals[name]
            if isinstance(rhs, ast.Constant) or isinstance(rhs, (ast.Lambda, ast.JoinedStr)):
                return IMM("const")
            return frozenset({("G", m.rel, name)})
        kind, tm, node = self.an.prog.resolve_import(m, name)
        if kind in ("class", "func", "module", "ext"):
            return IMM(kind)
        if kind == "global":
            if isinstance(node, ast.Constant):
                return IMM("const")
            return frozenset({("G", tm.rel, name)})
        return IMM("builtin")

    def record_mut(self, node, kind, recv_node, av, text=None, extra=None):
        key = (id(node), kind)
        rec = self.an.mut_sites.get(key)
        if rec is None:
            rec = dict(mod=self.mod, scope=self.sc, qual=self.sc.qual, kind=kind, node=node, recv=recv_node,
                       av=EMPTY, text=text if text is not None else unparse(recv_node), extra=extra or {})
            self.an.mut_sites[key] = rec
        rec["av"] = rec["av"] | av
        if self.in_unordered:
            rec.setdefault("in_unordered", set()).update(id(l[0]) for l in self.in_unordered)
            if kind in ("call.append", "call.extend", "call.insert", "iadd"):
                self.an.taint(av, self.cur_roots())

    def cur_roots(self):
        out = frozenset()
        for (_, itav) in self.in_unordered:
            out |= self.an.roots(itav)
        return out

    def record_order(self, node, kind, iter_node, av, extra=None):
        key = (id(node), kind)
        rec = self.an.order_sites.get(key)
        if rec is None:
            rec = dict(mod=self.mod, scope=self.sc, qual=self.sc.qual, kind=kind, node=node, iter=iter_node,
                       av=EMPTY, extra=extra or {})
            self.an.order_sites[key] = rec
        rec["av"] = rec["av"] | av
        if extra:
            rec["extra"].update(extra)

    # ---- statements
    def exec_block(self, stmts, env):
        for st in stmts:
            if env is None:
                # unreachable code is still scanned for nested defs (none expected)
                return None
            env = self.exec_stmt(st, env)
        return env

    def exec_stmt(self, st, env):
        m = getattr(self, "s_" + type(st).__name__, None)
        if m is None:
            self.an.unsupported.append(f"{self.mod.rel}::{self.sc.qual}: statement {type(st).__name__}")
            return env
        return m(st, env)

    def s_Expr(self, st, env):
        self.ev(st.value, env)
        return env

    def s_Pass(self, st, env):
        return env

    s_Global = s_Nonlocal = s_Pass

    def s_Import(self, st, env):
        for a in st.names:
            self.assign_name((a.asname or a.name).split(".")[0], IMM("module"), env, st)
        return env

    def s_ImportFrom(self, st, env):
        for a in st.names:
            if a.name != "*":
                self.assign_name(a.asname or a.name, IMM("ext"), env, st)
        return env

    def s_Assert(self, st, env):
        self.ev(st.test, env)
        if st.msg is not None:
            self.ev(st.msg, env)
        return env

    def s_Raise(self, st, env):
        if st.exc is not None:
            self.ev(st.exc, env)
        if st.cause is not None:
            self.ev(st.cause, env)
        return None

    def s_Return(self, st, env):
        av = self.ev(st.value, env) if st.value is not None else IMM("none")
        self.sc.ret = self.sc.ret | av
        self.an.ret_sites.setdefault((self.mod.rel, self.sc.qual), []).append((st, av))
        return None

    def s_Break(self, st, env):
        if self.loopstack:
            self.loopstack[-1].breaks.append(env)
        return None

    def s_Continue(self, st, env):
        if self.loopstack:
            self.loopstack[-1].continues.append(env)
        return None

    def s_Delete(self, st, env):
        for t in st.targets:
            if isinstance(t, ast.Name):
                env = dict(env)
                env.pop(t.id, None)
            elif isinstance(t, ast.Subscript):
                self.ev(t.slice, env)
                self.record_mut(st, "delitem", t.value, self.ev(t.value, env))
            elif isinstance(t, ast.Attribute):
                self.record_mut(st, "delattr", t.value, self.ev(t.value, env))
        return env

    def s_Assign(self, st, env):
        env = dict(env)
        if len(st.targets) == 1 and isinstance(st.targets[0], (ast.Tuple, ast.List)) and \
                isinstance(st.value, (ast.Tuple, ast.List)) and len(st.targets[0].elts) == len(st.value.elts) \
                and not any(isinstance(e, ast.Starred) for e in st.targets[0].elts + st.value.elts):
            vals = [self.ev(e, env) for e in st.value.elts]
            for t, v in zip(st.targets[0].elts, vals):
                self.assign(t, v, env, st)
            return env
        av = self.ev(st.value, env)
        for t in st.targets:
            self.assign(t, av, env, st)
        return env

    def s_AnnAssign(self, st, env):
        if st.value is None:
            return env
        env = dict(env)
        self.assign(st.target, self.ev(st.value, env), env, st)
        return env

    def assign(self, t, av, env, st):
        if isinstance(t, ast.Name):
            self.assign_name(t.id, av, env, st)
        elif isinstance(t, (ast.Tuple, ast.List)):
            items = self.tuple_items(av, len(t.elts))
            for i, e in enumerate(t.elts):
                if isinstance(e, ast.Starred):
                    v = self.fav(e, "star", "list", elem=self.an.elem_of(av))
                    self.assign(e.value, v, env, st)
                else:
                    self.assign(e, items[i] if items else self.an.elem_of(av), env, st)
            if self.an.is_unordered(av):
                self.record_order(st, "unpack", st.value if hasattr(st, "value") else t, av)
        elif isinstance(t, ast.Subscript):
            recv = self.ev(t.value, env)
            key = self.ev(t.slice, env)
            self.record_mut(st, "setitem", t.value, recv,
                            extra=dict(key=unparse(t.slice)))
            self.an.add_elem(recv, av, key)
            if self.in_unordered:
                for a in recv:
                    if a[0] in ("F", "O") and self.an.S(a[1]).kind == "dict" and not self.an.S(a[1]).unordered_fill:
                        self.an.S(a[1]).unordered_fill = True
                        self.an.changed = True
        elif isinstance(t, ast.Attribute):
            recv = self.ev(t.value, env)
            self.store_attr(st, t, recv, av, "setattr")
        elif isinstance(t, ast.Starred):
            self.assign(t.value, av, env, st)

    def store_attr(self, st, t, recv, av, kind):
        sc = self.sc
        if recv == frozenset({("S",)}) and sc.cls:
            key = (sc.cls, t.attr)
            old = self.an.field_sum.get(key, EMPTY)
            if not av <= old:
                self.an.field_sum[key] = old | av
                self.an.changed = True
            self.record_mut(st, kind, t.value, recv, extra=dict(attr=t.attr, self_store=True))
            return
        for a in recv:
            if a[0] in ("F", "O"):
                s = self.an.S(a[1])
                old = s.fields.get(t.attr, EMPTY)
                if not av <= old:
                    s.fields[t.attr] = old | av
                    self.an.changed = True
        self.record_mut(st, kind, t.value, recv, extra=dict(attr=t.attr))

    def tuple_items(self, av, n):
        if len(av) == 1:
            a = next(iter(av))
            if a[0] in ("F", "O"):
                s = self.an.S(a[1])
                if s.items is not None and len(s.items) == n:
                    return [self.an.own(x) if a[0] == "O" else x for x in s.items]
        return None

    def s_AugAssign(self, st, env):
        env = dict(env)
        rhs = self.ev(st.value, env)
        t = st.target
        opk = INPLACE_OPS.get(type(st.op))
        if isinstance(t, ast.Name):
            cur = self.lookup(t.id, env)
            if opk is None:
                self.assign_name(t.id, IMM("num"), env, st)
                return env
            self.record_mut(st, opk, t, cur, extra=dict(rhs=rhs, aug=True))
            if opk == "iadd" and self.an.is_unordered(rhs):
                self.an.taint(cur, self.an.roots(rhs))
                self.record_order(st, "transfer", st.value, rhs,
                                  extra=dict(result=[x[1] for x in cur if x[0] in ("F", "O")]))
            # a list stays the same object, an int/str/tuple becomes a new immutable value
            new = frozenset(a for a in cur if a[0] != "I") | (IMM("num") if any(a[0] == "I" for a in cur) else EMPTY)
            if not new:
                new = cur
            self.an.add_elem(cur, self.an.elem_of(rhs))
            self.assign_name(t.id, new, env, st)
        elif isinstance(t, ast.Subscript):
            recv = self.ev(t.value, env)
            self.ev(t.slice, env)
            self.record_mut(st, "setitem", t.value, recv, extra=dict(key=unparse(t.slice), aug=True))
            self.an.add_elem(recv, rhs | B("augmented element"))
        elif isinstance(t, ast.Attribute):
            recv = self.ev(t.value, env)
            self.store_attr(st, t, recv, rhs | IMM("num"), "setattr")
        return env

    def s_If(self, st, env):
        self.ev(st.test, env)
        a = self.exec_block(st.body, dict(env))
        b = self.exec_block(st.orelse, dict(env))
        return join_env(a, b)

    def loop(self, st, env, bind):
        lc = LoopCtx()
        self.loopstack.append(lc)
        self.sc.loops.append(st)
        head = env
        out = None
        for _ in range(6):
            body_env = dict(head)
            bind(body_env)
            end = self.exec_block(st.body, body_env)
            new_head = join_env(join_env(head, end), None)
            for c in lc.continues:
                new_head = join_env(new_head, c)
            lc.continues = []
            if new_head == head:
                break
            head = new_head
        self.sc.loops.pop()
        self.loopstack.pop()
        out = head
        if st.orelse:
            out = self.exec_block(st.orelse, dict(head))
        for b in lc.breaks:
            out = join_env(out, b)
        return out

    def s_For(self, st, env):
        it = self.ev(st.iter, env)
        unord = self.an.is_unordered(it)
        if unord:
            self.record_order(st, "for", st.iter, it)
            self.in_unordered.append((st, it))
        el = self.iter_elem(it, st.iter)

        def bind(e):
            self.assign(st.target, el, e, st)
        out = self.loop(st, env, bind)
        if unord:
            self.in_unordered.pop()
        return out

    s_AsyncFor = s_For

    def s_While(self, st, env):
        def bind(e):
            self.ev(st.test, e)
        return self.loop(st, env, bind)

    def s_With(self, st, env):
        env = dict(env)
        for it in st.items:
            av = self.ev(it.context_expr, env)
            if it.optional_vars is not None:
                self.assign(it.optional_vars, av | B("context manager result"), env, st)
        return self.exec_block(st.body, env)

    s_AsyncWith = s_With

    def s_Try(self, st, env):
        mid = env
        cur = dict(env)
        for s in st.body:
            if cur is None:
                break
            cur = self.exec_stmt(s, cur)
            mid = join_env(mid, cur)
        out = cur
        if st.orelse and out is not None:
            out = self.exec_block(st.orelse, out)
        for h in st.handlers:
            henv = dict(mid)
            if h.type is not None:
                self.ev(h.type, henv)
            if h.name:
                henv[h.name] = B("exception object")
            out = join_env(out, self.exec_block(h.body, henv))
        if st.finalbody:
            fin = join_env(out, mid)
            res = self.exec_block(st.finalbody, dict(fin))
            out = res if out is not None else None
        return out

    def s_FunctionDef(self, st, env):
        for d in st.decorator_list:
            self.ev(d, env)
        for d in st.args.defaults + [k for k in st.args.kw_defaults if k is not None]:
            self.ev(d, env)
        q = f"{self.sc.qual}.{st.name}" if self.sc.qual else st.name
        self.nested_defs[st.name] = q
        self.sc.nested.append((st, dict(env), tuple(id(l) for l in self.sc.loops), None))
        env = dict(env)
        self.assign_name(st.name, IMM("func"), env, st)
        return env

    s_AsyncFunctionDef = s_FunctionDef

    def s_ClassDef(self, st, env):
        for d in st.decorator_list:
            self.ev(d, env)
        q = f"{self.sc.qual}.{st.name}" if self.sc.qual else st.name
        self.sc.nested.append((st, dict(env), tuple(id(l) for l in self.sc.loops), None))
        env = dict(env)
        self.assign_name(st.name, IMM("class"), env, st)
        return env

    def s_Match(self, st, env):
        self.an.unsupported.append(f"{self.mod.rel}::{self.sc.qual}: match statement")
        return env

    # ---- nested scopes
    def finish_nested(self):
        sc = self.sc
        for (node, snap, loops, _) in sc.nested:
            cap = dict(sc.captured)
            if not isinstance(sc.node, (ast.Module, ast.ClassDef)):
                defpos = (node.lineno, node.col_offset)
                names = set(snap) | sc.params | sc.assigned
                for name in names:
                    v = snap.get(name, EMPTY)
                    for (n, pos, lps, av) in sc.assign_log:
                        if n == name and (pos > defpos or (set(lps) & set(loops))):
                            v = v | av
                    cap[name] = v
            if isinstance(node, ast.ClassDef):
                self.run_class(node, cap)
            else:
                q = f"{sc.qual}.{node.name}" if sc.qual else node.name
                run_function(self.an, self.mod, node, q, self, sc.cls, cap,
                             is_method=isinstance(sc.node, ast.ClassDef))

    def run_class(self, node, cap):
        q = f"{self.sc.qual}.{node.name}" if self.sc.qual else node.name
        csc = Scope(self.an, self.mod, node, q, self.sc, node.name, cap)
        ci = Interp(self.an, csc)
        ci.shared_owner = dict(self.shared_owner)
        ci.nested_defs = dict(self.nested_defs)
        ci.outer_defs = dict(self.nested_defs)
        env = {}
        # class body: plain statements (attribute defaults) and method definitions
        ci.exec_block(node.body, env)
        for k, v in env.items():
            if v and not all(a[0] == "I" for a in v):
                key = (node.name, k)
                old = self.an.field_sum.get(key, EMPTY)
                cv = frozenset(("G", self.mod.rel, f"{node.name}.{k}") if a[0] == "F" else a for a in v)
                if not cv <= old:
                    self.an.field_sum[key] = old | cv
                    self.an.changed = True
        ci.finish_nested()

    # ---- expressions
    def ev(self, e, env):
        if e is None:
            return IMM("none")
        m = getattr(self, "e_" + type(e).__name__, None)
        if m is None:
            for ch in ast.iter_child_nodes(e):
                if isinstance(ch, ast.expr):
                    self.ev(ch, env)
            return B(f"expression {type(e).__name__}")
        return m(e, env)

    def e_Constant(self, e, env):
        v = e.value
        k = "bool" if isinstance(v, bool) else "int" if isinstance(v, int) else "str" if isinstance(v, str) \
            else "none" if v is None else "num"
        return IMM(k)

    def e_Name(self, e, env):
        return self.lookup(e.id, env)

    def e_JoinedStr(self, e, env):
        for v in e.values:
            if isinstance(v, ast.FormattedValue):
                x = self.ev(v.value, env)
                if self.an.is_unordered(x):
                    self.record_order(v, "format", v.value, x)
        return IMM("str")

    def e_NamedExpr(self, e, env):
        av = self.ev(e.value, env)
        self.assign_name(e.target.id, av, env, e)
        return av

    def e_Tuple(self, e, env):
        items = [self.ev(x.value if isinstance(x, ast.Starred) else x, env) for x in e.elts]
        s = self.fresh(e, "tuple", "tuple")
        j = EMPTY
        for x in items:
            j |= x
        if not j <= s.elem:
            s.elem |= j
            self.an.changed = True
        if any(isinstance(x, ast.Starred) for x in e.elts):
            s.items = None
        elif s.items is None or len(s.items) != len(items):
            s.items = items
        else:
            s.items = [a | b for a, b in zip(s.items, items)]
        return frozenset({("F", s.sid)})

    def e_List(self, e, env, kind="list"):
        j = EMPTY
        for x in e.elts:
            v = self.ev(x.value if isinstance(x, ast.Starred) else x, env)
            j |= self.an.elem_of(v) if isinstance(x, ast.Starred) else v
        return self.fav(e, kind, kind, elem=j)

    def e_Set(self, e, env):
        return self.e_List(e, env, "set")

    def e_Dict(self, e, env):
        ke = ve = EMPTY
        for k, v in zip(e.keys, e.values):
            vv = self.ev(v, env)
            if k is None:
                ve |= self.an.elem_of(vv)
                ke |= self.an.elem_of(vv, keys=True)
            else:
                ke |= self.ev(k, env)
                ve |= vv
        return self.fav(e, "dict", "dict", elem=ve, kelem=ke)

    def comp(self, e, env, kind, results):
        env = dict(env)
        unord = frozenset()
        npush = 0
        for g in e.generators:
            it = self.ev(g.iter, env)
            if self.an.is_unordered(it):
                unord = unord | frozenset(self.an.roots(it))
                if kind == "list":
                    self.record_order(e, "transfer", g.iter, it)
            for n in ast.walk(g.target):
                if isinstance(n, ast.Name):
                    self.compvars.append(n.id)
                    npush += 1
            self.comp_assign(g.target, self.iter_elem(it, g.iter), env)
            for c in g.ifs:
                self.ev(c, env)
        out = [self.ev(r, env) for r in results]
        if npush:
            del self.compvars[-npush:]
        return out, unord

    def comp_assign(self, t, av, env):
        if isinstance(t, ast.Name):
            env[t.id] = av
        elif isinstance(t, (ast.Tuple, ast.List)):
            items = self.tuple_items(av, len(t.elts))
            for i, x in enumerate(t.elts):
                self.comp_assign(x.value if isinstance(x, ast.Starred) else x,
                                 items[i] if items else self.an.elem_of(av), env)

    def assign_comp_target(self, t, av, env):
        pass

    def e_ListComp(self, e, env):
        (el,), unord = self.comp(e, env, "list", [e.elt])
        st = self.fresh(e, "list", "list", elem=el)
        if unord:
            self.an.taint(frozenset({("F", st.sid)}), unord)
            rec = self.an.order_sites.get((id(e), "transfer"))
            if rec is not None:
                rec["extra"]["result"] = st.sid
        return frozenset({("F", st.sid)})

    def e_SetComp(self, e, env):
        (el,), _ = self.comp(e, env, "set", [e.elt])
        return self.fav(e, "set", "set", elem=el)

    def e_GeneratorExp(self, e, env):
        srcs = EMPTY
        for g in e.generators:
            srcs |= self.ev(g.iter, env)
        (el,), _ = self.comp(e, env, "iter", [e.elt])
        s = self.fresh(e, "iter", "iter", elem=el)
        s.fields["__src__"] = s.fields.get("__src__", EMPTY) | srcs
        return frozenset({("F", s.sid)})

    def e_DictComp(self, e, env):
        (kv, vv), unord = self.comp(e, env, "dict", [e.key, e.value])
        s = self.fresh(e, "dict", "dict", elem=vv, kelem=kv)
        if unord and not s.unordered_fill:
            s.unordered_fill = True
            self.an.changed = True
        return frozenset({("F", s.sid)})

    def e_Lambda(self, e, env):
        sub = Scope(self.an, self.mod, e, self.sc.qual, self.sc, self.sc.cls, dict(self.sc.captured))
        li = Interp(self.an, sub)
        li.shared_owner, li.shared_names, li.nested_defs = self.shared_owner, set(), self.nested_defs
        sub.qual = self.sc.qual
        cap = dict(self.sc.captured)
        cap.update(env)
        sub.captured = cap
        lenv = {}
        for a in e.args.args + e.args.kwonlyargs + e.args.posonlyargs:
            sub.params.add(a.arg)
            lenv[a.arg] = B("lambda parameter")
        for x in (e.args.vararg, e.args.kwarg):
            if x is not None:
                sub.params.add(x.arg)
                lenv[x.arg] = B("lambda parameter")
        li.in_unordered = self.in_unordered
        li.compvars = [c for c in self.compvars if c not in sub.params]
        for c in li.compvars:
            lenv[c] = env.get(c, EMPTY)
        r = li.ev(e.body, lenv)
        self.an.sites  # noqa
        s = self.fresh(e, "lambda", "func")
        if not r <= s.elem:
            s.elem |= r
            self.an.changed = True
        return IMM("func")

    def e_IfExp(self, e, env):
        self.ev(e.test, env)
        return self.ev(e.body, env) | self.ev(e.orelse, env)

    def e_BoolOp(self, e, env):
        out = EMPTY
        for v in e.values:
            out |= self.ev(v, env)
        return out

    def e_Compare(self, e, env):
        self.ev(e.left, env)
        for c in e.comparators:
            self.ev(c, env)
        return IMM("bool")

    def e_UnaryOp(self, e, env):
        v = self.ev(e.operand, env)
        return IMM("bool") if isinstance(e.op, ast.Not) else IMM("num")

    def e_BinOp(self, e, env):
        a, b = self.ev(e.left, env), self.ev(e.right, env)
        if all(x[0] == "I" for x in a | b) and (a | b):
            ks = {x[1] for x in a | b}
            return IMM("str" if "str" in ks else "int" if ks <= {"int", "bool"} else "num")
        kind = "val"
        for x in a | b:
            if x[0] in ("F", "O") and self.an.S(x[1]).kind in ("list", "set", "dict", "tuple"):
                kind = self.an.S(x[1]).kind
        if isinstance(e.op, ast.Mod) and any(x == ("I", "str") for x in a):
            return IMM("str")
        if isinstance(e.op, (ast.BitOr, ast.BitAnd, ast.BitXor, ast.Sub)) and kind == "val" and \
                any(x[0] in ("F", "O") and self.an.S(x[1]).kind == "set" for x in a | b):
            kind = "set"
        el = self.an.elem_of(frozenset(x for x in a | b if x[0] != "I"), "operand element")
        st = self.fresh(e, "binop", kind, elem=el)
        if kind in ("list", "tuple"):
            st.fields["__src__"] = st.fields.get("__src__", EMPTY) | frozenset(x for x in a | b if x[0] in ("F", "O", "P"))
        return frozenset({("F", st.sid)})

    def e_Starred(self, e, env):
        return self.ev(e.value, env)

    def e_Await(self, e, env):
        return self.ev(e.value, env)

    def e_Yield(self, e, env):
        v = self.ev(e.value, env) if e.value is not None else IMM("none")
        self.sc.yielded = getattr(self.sc, "yielded", EMPTY) | v
        return B("value sent to generator")

    def e_YieldFrom(self, e, env):
        v = self.ev(e.value, env)
        self.sc.yielded = getattr(self.sc, "yielded", EMPTY) | self.an.elem_of(v)
        return B("value sent to generator")

    def e_Slice(self, e, env):
        for x in (e.lower, e.upper, e.step):
            if x is not None:
                self.ev(x, env)
        return IMM("slice")

    def e_Subscript(self, e, env):
        recv = self.ev(e.value, env)
        self.ev(e.slice, env)
        if isinstance(e.slice, ast.Slice):
            kind = "list"
            for a in recv:
                if a[0] in ("F", "O"):
                    kind = self.an.S(a[1]).kind
                elif a[0] == "I":
                    return IMM("str")
            return self.fav(e, "slice", kind if kind in ("list", "tuple") else "list", elem=self.an.elem_of(recv))
        if isinstance(e.slice, ast.Constant) and isinstance(e.slice.value, int) and len(recv) == 1:
            a = next(iter(recv))
            if a[0] in ("F", "O"):
                s = self.an.S(a[1])
                if s.items is not None and -len(s.items) <= e.slice.value < len(s.items):
                    v = s.items[e.slice.value]
                    return self.an.own(v) if a[0] == "O" else v
        if recv and all(a[0] == "I" for a in recv):
            return IMM("imm")
        if any(a[0] in ("F", "O") and self.an.S(a[1]).kind in ("list", "tuple", "iter") for a in recv) and \
                self.an.is_unordered(recv):
            self.record_order(e, "index", e.value, recv)
        return self.an.elem_of(recv, "item")

    def iter_elem(self, av, node):
        return self.an.elem_of(av, "element", keys=True)

    def e_Attribute(self, e, env):
        recv = self.ev(e.value, env)
        attr = e.attr
        text = unparse(e)
        if text in self.an.cfg.extern_fresh:
            return self.fav(e, "extern", "dict", elem=B("caller-supplied argument"), kelem=IMM("str"))
        if recv == frozenset({("S",)}) and self.sc.cls:
            return self.self_field(self.sc.cls, attr, own=True)
        out = set()
        for a in recv:
            if a[0] == "I":
                # attribute of a class object / module: class-level state is shared state
                out.add(("B", f"class-level attribute .{attr}") if a[1] == "class" and not attr[:1].isupper()
                        else ("I", "imm"))
            elif a[0] in ("F", "O"):
                s = self.an.S(a[1])
                if s.kind == "dict" and attr in ("parents", "maps"):
                    out.add(a)
                    continue
                if s.kind == "obj":
                    v = s.fields.get(attr, EMPTY)
                    if s.cls:
                        v = v | self.self_field(s.cls, attr, own=False, exact=True)
                    if not v:
                        v = B(f"field .{attr} of new object (no store seen)")
                    out |= self.an.own(v) if a[0] == "O" else v
                else:
                    out.add(("B", f"field .{attr} of new {s.kind}"))
            else:
                out.add(("B", f"attribute .{attr} of borrowed object"))
        return frozenset(out)

    def self_field(self, cls, attr, own, exact=False):
        fam = self.an.prog.ancestors(cls) if exact else self.an.prog.family(cls)
        v = EMPTY
        for c in fam:
            v |= self.an.field_sum.get((c, attr), EMPTY)
        if not v:
            for c in fam:
                for (cc, rel, q, nd) in self.an.method_index.get(attr, []):
                    if cc == c:
                        return IMM("func")
            return B(f"self.{attr} (no store seen in analysed classes)") if own else EMPTY
        return self.an.own(v) if own else v

    # ---- calls
    def e_Call(self, e, env):
        f = e.func
        args = [self.ev(a.value if isinstance(a, ast.Starred) else a, env) for a in e.args]
        kws = {}
        for k in e.keywords:
            v = self.ev(k.value, env)
            if k.arg is not None:
                kws[k.arg] = v
        name = f.id if isinstance(f, ast.Name) else f.attr if isinstance(f, ast.Attribute) else None
        if name:
            self.an.call_args.append((self.mod, self.sc, e, name, args, kws))
        saved = self._applied
        self._applied = False
        if isinstance(f, ast.Attribute):
            r = self.call_method(e, f, args, kws, env)
        elif isinstance(f, ast.Name):
            r = self.call_name(e, f.id, args, kws, env)
        else:
            self.ev(f, env)
            r = B("result of computed call")
        if not self._applied and name not in ORDER_NEUTRAL_CALLEES:
            for an_, av in list(zip(e.args, args)) + [(k.value, kws[k.arg]) for k in e.keywords if k.arg in kws]:
                if self.an.is_unordered(av):
                    self.record_order(an_, "escape", an_, av, extra=dict(callee=unparse(f)))
        self._applied = saved
        return r

    def a0(self, args):
        return args[0] if args else EMPTY

    def call_name(self, e, name, args, kws, env):
        sc = self.sc
        an = self.an
        shadow = (sc.is_local(name) or name in sc.captured) and name not in self.nested_defs
        if shadow:
            v = self.lookup(name, env)
            if not (v and all(a == ("I", "class") for a in v)):
                return B(f"result of call through local {name}")
        if name in self.nested_defs:
            q = self.nested_defs[name]
            nd = an.funcs.get((self.mod.rel, q))
            if nd is not None:
                return self.apply([(self.mod.rel, q, nd, False)], args, kws, EMPTY, "func", e)
        if name in an.cfg.returns_fresh:
            return self.fav(e, "rf", "val", elem=B("element of annotated-fresh result"))
        if name in CONTAINER_CTORS:
            kind = CONTAINER_CTORS[name]
            src = self.a0(args)
            if name == "dict":
                ve = an.elem_of(src) if args else EMPTY
                ke = an.elem_of(src, keys=True) if args else EMPTY
                for v in kws.values():
                    ve |= v
                s = self.fresh(e, "ctor", "dict", elem=ve, kelem=ke | (IMM("str") if kws else EMPTY))
                if args and an.is_unordered(src) and not s.unordered_fill:
                    s.unordered_fill = True
                return frozenset({("F", s.sid)})
            if name == "defaultdict":
                ve = EMPTY
                if e.args and isinstance(e.args[0], ast.Name) and e.args[0].id in ("list", "set", "dict"):
                    ve = self.fav(e, "dflt", e.args[0].id)
                elif e.args and isinstance(e.args[0], ast.Lambda):
                    ve = an.sites[(id(e.args[0]), "lambda")].elem if (id(e.args[0]), "lambda") in an.sites else EMPTY
                return self.fav(e, "ctor", "dict", elem=ve)
            if name == "ChainMap":
                r = self.fav(e, "ctor", "dict")
                return r | self.a0(args)
            unord = bool(args) and an.is_unordered(src)
            el = an.elem_of(src, keys=True) if args else EMPTY
            st = self.fresh(e, "ctor", kind, elem=el)
            if unord and name == "sorted":
                key = None
                for k in e.keywords:
                    if k.arg == "key":
                        key = k.value
                self.record_order(e, "sorted", e.args[0], src, extra=dict(key=key))
                st.clean = True
            elif unord and name in ("list", "tuple", "deque"):
                self.record_order(e, "transfer", e.args[0], src, extra=dict(result=st.sid))
                an.taint(frozenset({("F", st.sid)}), an.roots(src))
            elif name in ("list", "tuple", "deque") and st.tainted and not unord and self.an.rounds > 1:
                pass
            return frozenset({("F", st.sid)})
        if name in ("enumerate", "zip", "reversed", "iter", "map", "filter", "chain"):
            srcs = EMPTY
            for a in args:
                srcs |= a
            if name == "enumerate":
                t = self.fresh(e, "item", "tuple")
                t.items = [IMM("int"), an.elem_of(src := self.a0(args), keys=True)]
                t.elem = t.items[0] | t.items[1]
                el = frozenset({("F", t.sid)})
            elif name == "zip":
                t = self.fresh(e, "item", "tuple")
                t.items = [an.elem_of(a, keys=True) for a in args]
                t.elem = frozenset().union(*t.items) if t.items else EMPTY
                el = frozenset({("F", t.sid)})
            elif name == "map":
                el = B("result of mapped function")
                srcs = frozenset().union(*args[1:]) if len(args) > 1 else EMPTY
            elif name == "filter":
                el = an.elem_of(args[1], keys=True) if len(args) > 1 else EMPTY
                srcs = args[1] if len(args) > 1 else EMPTY
            else:
                el = EMPTY
                for a in args:
                    el |= an.elem_of(a, keys=True)
            s = self.fresh(e, "iter", "iter", elem=el)
            s.fields["__src__"] = s.fields.get("__src__", EMPTY) | srcs
            return frozenset({("F", s.sid)})
        if name in IMM_BUILTINS:
            k = "int" if name in ("len", "int", "id", "hash", "ord", "abs", "round") else \
                "str" if name in ("str", "repr", "format", "chr", "bin", "hex", "oct") else \
                "bool" if name in ("bool", "isinstance", "issubclass", "hasattr", "any", "all", "callable") else "imm"
            return IMM(k)
        if name in ("min", "max"):
            if len(args) == 1:
                if an.is_unordered(args[0]):
                    key = None
                    for k in e.keywords:
                        if k.arg == "key":
                            key = k.value
                    self.record_order(e, name, e.args[0], args[0], extra=dict(key=key))
                return an.elem_of(args[0], keys=True) | kws.get("default", EMPTY)
            out = EMPTY
            for a in args:
                out |= a
            return out
        if name == "sum":
            if len(args) > 1 and any(a[0] in ("F", "O") for a in args[1]):
                return self.fav(e, "sum", "list", elem=an.elem_of(an.elem_of(args[0])))
            return IMM("num")
        if name == "next":
            if args and an.is_unordered(args[0]):
                self.record_order(e, "next", e.args[0], args[0])
            return an.elem_of(self.a0(args), keys=True) | (args[1] if len(args) > 1 else EMPTY)
        if name == "getattr":
            return B("getattr result") | (args[2] if len(args) > 2 else EMPTY)
        if name == "setattr":
            self.record_mut(e, "setattr", e.args[0], self.a0(args), extra=dict(attr=unparse(e.args[1])))
            return IMM("none")
        if name in ("copy", "deepcopy"):
            return self.fav(e, "copy", self.kind_of(self.a0(args)), elem=an.elem_of(self.a0(args)))
        if name == "super":
            return frozenset({("S",)})
        if name == "vars":
            return B("vars() of object")
        # module-level function / class of an analysed or indexed module
        m = self.mod
        if name in m.functions:
            nd = an.funcs.get((m.rel, name))
            if nd is not None:
                return self.apply([(m.rel, name, nd, False)], args, kws, EMPTY, "func", e)
            return B(f"result of call {name}()")
        if name in m.classes:
            return self.construct(e, name, m, m.classes[name], args, kws)
        kind, tm, node = an.prog.resolve_import(m, name)
        if kind == "class":
            return self.construct(e, name, tm, node, args, kws)
        if kind == "func":
            nd = an.funcs.get((tm.rel, name))
            if nd is not None:
                return self.apply([(tm.rel, name, nd, False)], args, kws, EMPTY, "func", e)
            return B(f"result of call {name}()")
        if kind == "ext" and name[:1].isupper():
            return self.fav(e, "new", "obj", cls=None, desc=f"{name}(...)")
        return B(f"result of call {name}()")

    def kind_of(self, av):
        for a in av:
            if a[0] in ("F", "O"):
                return self.an.S(a[1]).kind
        return "val"

    def construct(self, e, name, tm, cdef, args, kws):
        an = self.an
        anc = an.prog.ancestors(name)
        if any(b in ("Exception", "BaseException", "TypeError", "ValueError") for b in anc):
            pass
        s = self.fresh(e, "new", "obj", cls=name, desc=f"{name}(...)")
        has_init = any((c == cc) for c in anc for (cc, rel, q, nd) in an.method_index.get("__init__", []))
        if not has_init and cdef is not None:
            flds = [st.target.id for st in cdef.body if isinstance(st, ast.AnnAssign) and isinstance(st.target, ast.Name)]
            for i, a in enumerate(args):
                if i < len(flds):
                    if not a <= s.fields.get(flds[i], EMPTY):
                        s.fields[flds[i]] = s.fields.get(flds[i], EMPTY) | a
                        an.changed = True
            for k, a in kws.items():
                if not a <= s.fields.get(k, EMPTY):
                    s.fields[k] = s.fields.get(k, EMPTY) | a
                    an.changed = True
        return frozenset({("F", s.sid)})

    def apply(self, cands, args, kws, recv, mode, e):
        """Instantiate the return summaries of the candidate callees."""
        an = self.an
        if cands:
            self._applied = True
        out = set()
        for (rel, q, nd, is_meth) in cands:
            summ = an.ret_sum.get((rel, q))
            if summ is None:
                continue
            params = [a.arg for a in nd.args.posonlyargs + nd.args.args]
            decos = {unparse(d) for d in nd.decorator_list}
            if is_meth and "staticmethod" not in decos and params:
                params = params[1:]
            fk = f"{rel}::{q}"
            an.callgraph.setdefault(f"{self.mod.rel}::{self.sc.qual}", set()).add(fk)
            if self.in_unordered:
                an.unordered_callees[fk] = an.unordered_callees.get(fk, frozenset()) | self.cur_roots()
            for i, pn in enumerate(params):
                v = args[i] if i < len(args) else kws.get(pn)
                if v:
                    v = frozenset(x for x in v if x[0] in ("F", "O", "P"))
                    old = an.param_in.get((fk, pn), EMPTY)
                    if v and not v <= old:
                        an.param_in[(fk, pn)] = old | v
                        an.changed = True
            for a in summ:
                if a[0] in ("I", "B", "G", "F"):
                    out.add(a)
                elif a[0] == "O":
                    out.add(a if mode == "self" else ("F", a[1]) if mode == "fresh" else
                            ("B", "state of callee object"))
                elif a[0] == "S":
                    out |= recv if recv else {("B", "callee self")}
                elif a[0] == "P" and a[2] != f"{rel}::{q}":
                    out.add(("B", "parameter of an enclosing/other function"))
                elif a[0] == "P":
                    if a[1] in params and params.index(a[1]) < len(args):
                        out |= args[params.index(a[1])]
                    elif a[1] in kws:
                        out |= kws[a[1]]
                    elif nd.args.vararg is not None and nd.args.vararg.arg == a[1]:
                        for x in args[len(params):]:
                            out |= x
                    else:
                        out.add(("I", "default"))
        if not out and not any(an.ret_sum.get((rel, q)) for (rel, q, _, _) in cands):
            return EMPTY if all((rel, q) in an.ret_sum for (rel, q, _, _) in cands) else EMPTY
        return frozenset(out)

    def methods(self, classes, name):
        out = []
        for (cc, rel, q, nd) in self.an.method_index.get(name, []):
            if cc in classes:
                out.append((rel, q, nd, True))
        return out

    def call_method(self, e, f, args, kws, env):
        an = self.an
        attr = f.attr
        text = unparse(f)
        if text == "object.__setattr__" and e.args:
            self.record_mut(e, "setattr", e.args[0], args[0],
                            extra=dict(attr=unparse(e.args[1]) if len(e.args) > 1 else "?",
                                       self_store=(args[0] == frozenset({("S",)}))))
            if args[0] == frozenset({("S",)}) and self.sc.cls and len(e.args) > 2 and isinstance(e.args[1], ast.Constant):
                key = (self.sc.cls, e.args[1].value)
                if not args[2] <= an.field_sum.get(key, EMPTY):
                    an.field_sum[key] = an.field_sum.get(key, EMPTY) | args[2]
                    an.changed = True
            return IMM("none")
        # super().m(...)
        if isinstance(f.value, ast.Call) and isinstance(f.value.func, ast.Name) and f.value.func.id == "super":
            if self.sc.cls:
                anc = [c for c in an.prog.ancestors(self.sc.cls) if c != self.sc.cls]
                cands = self.methods(set(anc), attr)
                if cands:
                    return self.apply(cands, args, kws, frozenset({("S",)}), "self", e)
            return B(f"result of super().{attr}()")
        # namespace / class attribute calls
        if isinstance(f.value, ast.Name) and not self.sc.is_local(f.value.id) and f.value.id not in self.sc.captured:
            base = f.value.id
            bv = self.global_name(base)
            if bv and all(a[0] == "I" for a in bv):
                if base in ADT_MODULES and attr[:1].isupper():
                    j = EMPTY
                    for a in list(args) + list(kws.values()):
                        j |= a
                    return self.fav(e, "node", "node", elem=j, desc=f"{base}.{attr}(...)")
                if base in ("copy",) and attr in ("copy", "deepcopy"):
                    return self.fav(e, "copy", self.kind_of(self.a0(args)), elem=an.elem_of(self.a0(args)))
                if base == "dataclasses" and attr == "replace":
                    return self.fav(e, "copy", "obj")
                if base in ("itertools", "chain") or (base == "chain" and attr == "from_iterable"):
                    el = EMPTY
                    for a in args:
                        el |= an.elem_of(an.elem_of(a) if attr == "from_iterable" else a)
                    s = self.fresh(e, "iter", "iter", elem=el)
                    return frozenset({("F", s.sid)})
                if text in an.cfg.returns_fresh:
                    return self.fav(e, "rf", "val", elem=B("element of annotated-fresh result"))
                kind, tm, node = an.prog.resolve_import(self.mod, base) if base not in self.mod.classes \
                    else ("class", self.mod, self.mod.classes[base])
                if kind == "class":
                    cands = self.methods(set(an.prog.ancestors(base)), attr)
                    if cands:
                        return self.apply(cands, args, kws, EMPTY, "func", e)
                    if attr[:1].isupper():
                        return self.fav(e, "node", "node", desc=f"{base}.{attr}(...)")
                    return B(f"result of call {base}.{attr}()")
                if kind == "module" and tm is not None:
                    nd = an.funcs.get((tm.rel, attr))
                    if nd is not None:
                        return self.apply([(tm.rel, attr, nd, False)], args, kws, EMPTY, "func", e)
                    if attr in tm.classes or attr[:1].isupper():
                        return self.construct(e, attr, tm, tm.classes.get(attr), args, kws) if attr in tm.classes \
                            else self.fav(e, "node", "node", desc=f"{base}.{attr}(...)")
                    return B(f"result of call {base}.{attr}()")
                if attr[:1].isupper() and kind in ("ext", "other", "global"):
                    j = EMPTY
                    for a in list(args) + list(kws.values()):
                        j |= a
                    return self.fav(e, "node", "node", elem=j, desc=f"{base}.{attr}(...)")
                return B(f"result of call {base}.{attr}()")
        recv = self.ev(f.value, env)
        is_self = recv == frozenset({("S",)})
        sites = [an.S(a[1]) for a in recv if a[0] in ("F", "O")]
        all_sites = bool(recv) and all(a[0] in ("F", "O") for a in recv)
        objcls = {s.cls for s in sites if s.kind == "obj" and s.cls}
        if text in an.cfg.returns_fresh or ("." + attr) in an.cfg.returns_fresh:
            return self.fav(e, "rf", "val", elem=B("element of annotated-fresh result"))
        # method of self / of an object built in this call
        if is_self and self.sc.cls:
            cands = self.methods(an.prog.family(self.sc.cls), attr)
            if cands:
                return self.apply(cands, args, kws, recv, "self", e)
            return B(f"result of self.{attr}()")
        if all_sites and sites and all(s.kind == "obj" for s in sites):
            cands = []
            for c in objcls:
                cands += self.methods(set(an.prog.ancestors(c)), attr)
            if cands:
                mode = "fresh" if all(a[0] == "F" for a in recv) else "self"
                return self.apply(cands, args, kws, recv, mode, e)
            if attr in MUTATORS and not objcls:
                return B(f"result of .{attr}() on new object")   # e.g. SMTSolver().pop(): not a container
            return B(f"result of .{attr}() on new object")
        if recv and all(a[0] == "I" for a in recv):
            # str / function / class-object methods
            if attr == "join" and args:
                if an.is_unordered(args[0]):
                    self.record_order(e, "join", e.args[0], args[0])
                return IMM("str")
            if attr in ("split", "splitlines", "rsplit", "partition"):
                return self.fav(e, "split", "list", elem=IMM("str"))
            return IMM("str") if ("I", "str") in recv else IMM("imm")
        if attr == "join" and args and an.is_unordered(args[0]):
            self.record_order(e, "join", e.args[0], args[0])
        if attr == "update" and not e.args and e.keywords and \
                not any(s.kind in ("dict", "set") for s in sites):
            j = EMPTY
            for a in kws.values():
                j |= a
            return self.fav(e, "evolve", "node", elem=j, desc="functional .update(k=v)")
        if attr in MUTATORS:
            self.record_mut(e, "call." + attr, f.value, recv, extra=dict(nargs=len(e.args)))
            a0 = self.a0(args)
            if attr in ("append", "add", "appendleft"):
                an.add_elem(recv, a0, a0)
            elif attr == "insert" and len(args) > 1:
                an.add_elem(recv, args[1])
            elif attr in ("extend", "update") and args:
                if attr == "extend" and an.is_unordered(a0):
                    an.taint(recv, an.roots(a0))
                    self.record_order(e, "transfer", e.args[0], a0,
                                      extra=dict(result=[x[1] for x in recv if x[0] in ("F", "O")]))
                an.add_elem(recv, an.elem_of(a0), an.elem_of(a0, keys=True))
                for v in kws.values():
                    an.add_elem(recv, v)
                if attr == "update" and self.in_unordered:
                    pass
            elif attr == "setdefault":
                d = args[1] if len(args) > 1 else IMM("none")
                an.add_elem(recv, d, a0)
                return an.elem_of(recv) | d
            if attr in ("pop", "popitem", "popleft"):
                if (attr == "popitem" or not e.args) and an.is_unordered(recv):
                    self.record_order(e, "pop", f.value, recv)
                return an.elem_of(recv) | (args[1] if len(args) > 1 else EMPTY)
            return IMM("none")
        if attr == "copy" and not e.args:
            s = self.fresh(e, "copy", self.kind_of(recv), elem=an.elem_of(recv), kelem=an.elem_of(recv, keys=True))
            for x in sites:
                if x.kind == "dict" and x.unordered_fill and not s.unordered_fill:
                    s.unordered_fill = True
            return frozenset({("F", s.sid)})
        if attr in ("keys", "values", "items") and not e.args:
            if attr == "keys":
                el = an.elem_of(recv, keys=True)
            elif attr == "values":
                el = an.elem_of(recv)
            else:
                t = self.fresh(e, "item", "tuple")
                t.items = [an.elem_of(recv, keys=True), an.elem_of(recv)]
                t.elem = t.items[0] | t.items[1]
                el = frozenset({("F", t.sid)})
            s = self.fresh(e, "iter", "iter", elem=el)
            s.fields["__src__"] = s.fields.get("__src__", EMPTY) | recv
            return frozenset({("F", s.sid)})
        if attr == "get":
            return an.elem_of(recv) | (args[1] if len(args) > 1 else IMM("none"))
        if attr == "new_child":
            return self.fav(e, "child", "dict", elem=an.elem_of(recv), kelem=an.elem_of(recv, keys=True)) | \
                (args[0] if args else EMPTY)
        if attr in ("union", "intersection", "difference", "symmetric_difference"):
            el = an.elem_of(recv, keys=True)
            for a in args:
                el |= an.elem_of(a, keys=True)
            return self.fav(e, "setop", "set", elem=el)
        if attr in ("index", "count", "find", "startswith", "endswith", "issubset", "issuperset", "isdisjoint",
                    "__len__", "__contains__"):
            return IMM("int")
        return B(f"result of .{attr}()")


def run_function(an, mod, node, qual, parent, cls, captured, is_method=False):
    psc = parent.sc if parent is not None else None
    sc = Scope(an, mod, node, qual, psc, cls, captured)
    sc.is_method = is_method
    it = Interp(an, sc)
    if parent is not None:
        it.shared_owner = dict(parent.shared_owner)
        it.nested_defs = dict(parent.outer_defs if parent.outer_defs is not None else parent.nested_defs)
    argnames = {a.arg for a in node.args.posonlyargs + node.args.args + node.args.kwonlyargs}
    for n in sc.inner_nonlocals:
        if sc.is_local(n) or n in argnames:
            it.shared_names.add(n)
            it.shared_owner[n] = id(node)
    it.shared_names -= sc.nonlocals
    env = {}
    a = node.args
    decos = {unparse(d) for d in node.decorator_list}
    plist = a.posonlyargs + a.args
    owns = an.cfg.owns_param.get((mod.rel, qual), {})
    fkey = f"{mod.rel}::{qual}"
    for i, p in enumerate(plist):
        sc.params.add(p.arg)
        if i == 0 and is_method and "staticmethod" not in decos:
            sc.self_name = p.arg
            env[p.arg] = IMM("class") if "classmethod" in decos else frozenset({("S",)})
        elif p.arg in owns:
            env[p.arg] = it.fav(p, "owned", "list", elem=B("element of owned argument"))
        else:
            env[p.arg] = frozenset({("P", p.arg, fkey)})
    for p in a.kwonlyargs:
        sc.params.add(p.arg)
        env[p.arg] = frozenset({("P", p.arg, fkey)})
    if a.vararg is not None:
        sc.params.add(a.vararg.arg)
        env[a.vararg.arg] = it.fav(a.vararg, "vararg", "tuple", elem=frozenset({("P", a.vararg.arg, fkey)}))
    if a.kwarg is not None:
        sc.params.add(a.kwarg.arg)
        env[a.kwarg.arg] = it.fav(a.kwarg, "kwarg", "dict", elem=frozenset({("P", a.kwarg.arg, fkey)}), kelem=IMM("str"))
    for n in it.shared_names:
        if n in env:
            key = (id(node), n)
            if not env[n] <= an.shared.get(key, EMPTY):
                an.shared[key] = an.shared.get(key, EMPTY) | env[n]
                an.changed = True
    end = it.exec_block(node.body, env)
    ret = sc.ret
    if end is not None:
        ret = ret | IMM("none")
    if hasattr(sc, "yielded"):
        s = it.fresh(node, "gen", "iter", elem=sc.yielded)
        ret = frozenset({("F", s.sid)})
    key = (mod.rel, qual)
    old = an.ret_sum.get(key)
    if old is None or not ret <= old:
        an.ret_sum[key] = (old or EMPTY) | ret
        an.changed = True
    it.finish_nested()
    return it


# --------------------------------------------------------------------------- #
# obligations

def canon_text(node, scope):
    """Receiver text with local (non-parameter) variable names replaced by `$`,
    so that renaming a local does not rename the obligation."""
    if node is None:
        return ""
    params = set()
    sc = scope
    while sc is not None:
        params |= sc.params
        sc = sc.parent

    import re
    text = ast.unparse(node)
    for n in ast.walk(node):
        if not isinstance(n, ast.Name):
            continue
        s2, local = scope, False
        while s2 is not None and not isinstance(s2.node, ast.Module):
            if n.id in s2.params:
                break
            if n.id in s2.assigned:
                local = True
                break
            s2 = s2.parent
        if local:
            text = re.sub(r"(?<![\w.$])" + re.escape(n.id) + r"\b", "$", text)
    return text


def guard_dominates(rec):
    """`CACHE[k] = v` is add-only if it sits in the body of `if k not in CACHE:` or
    follows `assert k not in CACHE` in the same block."""
    node = rec["node"]
    if rec["kind"] != "setitem" or not isinstance(node, ast.Assign):
        return False
    tgt = [t for t in node.targets if isinstance(t, ast.Subscript)]
    if len(tgt) != 1:
        return False
    cache, key = ast.unparse(tgt[0].value), ast.unparse(tgt[0].slice)

    def is_guard(test):
        return isinstance(test, ast.Compare) and len(test.ops) == 1 and isinstance(test.ops[0], ast.NotIn) \
            and ast.unparse(test.left) == key and ast.unparse(test.comparators[0]) == cache
    cur = node
    while hasattr(cur, "_parent"):
        par = cur._parent
        if isinstance(par, ast.If) and cur in par.body and is_guard(par.test):
            return True
        for fld in ("body", "orelse", "finalbody"):
            blk = getattr(par, fld, None)
            if isinstance(blk, list) and cur in blk:
                for prev in blk[:blk.index(cur)]:
                    if isinstance(prev, ast.Assert) and is_guard(prev.test):
                        return True
        if isinstance(par, (ast.FunctionDef, ast.AsyncFunctionDef, ast.Lambda, ast.ClassDef, ast.Module)):
            break
        cur = par
    return False


class Policy:
    """What counts as owned for the frame obligation (C07)."""

    def __init__(self, published=(), declared_cache=None, declared_state=None, accepted=None):
        self.published = set(published)
        self.declared_cache = declared_cache or {}   # (rel, global) -> why   (add-only)
        self.declared_state = declared_state or {}   # class name -> why      (global frame, any update)
        self.accepted = accepted or {}               # obligation id -> why   (noted, not a violation)


def is_transient(an, pol, cls):
    fam = an.prog.family(cls)
    if fam & pol.published:
        return False
    if any(c in an.module_instances for c in fam):
        return False
    return True


def in_ctor(qual, cls):
    parts = qual.split(".")
    return any(p in ("__init__", "__new__", "__post_init__") for p in parts)


def mutation_obligations(an, pol, files):
    """-> list of dict(id, file, qual, kind, text, line, atoms=[(atom, ok, why)], status-free)."""
    recs = [r for r in an.mut_sites.values() if r["mod"].rel in files]
    recs.sort(key=lambda r: (r["mod"].rel, r["qual"], r["node"].lineno, r["node"].col_offset, r["kind"]))
    out = []
    counters = {}
    for r in recs:
        kind, av, ex = r["kind"], r["av"], r["extra"]
        if kind in ("iadd", "ior", "iand", "isub", "ixor", "imul"):
            if av and all(a[0] == "I" for a in av):
                continue            # rule (1): arithmetic on an immutable value rebinds the name
            rhs = ex.get("rhs", EMPTY)
            contain = any(a[0] in ("F", "O") and an.S(a[1]).kind in ("list", "set", "dict") for a in av)
            if not contain and rhs and all(a[0] == "I" for a in rhs):
                continue            # x += 1 / x -= 1 on a value of unknown kind: a number
            if not contain and kind == "imul":
                continue
        sc = r["scope"]
        canon = canon_text(r["recv"], sc) if r["recv"] is not None else r["text"]
        if ex.get("attr") and kind in ("setattr", "delattr"):
            canon = f"{canon}.{ex['attr']}" if not ex["attr"].startswith(("'", '"')) else f"{canon}.{ex['attr'][1:-1]}"
        base = f"{r['mod'].rel}::{r['qual'] or '<module>'}::{kind}({canon})"
        n = counters[base] = counters.get(base, 0) + 1
        oid = f"{base}#{n}"
        cls = sc.cls
        atoms = []
        for a in sorted(av):
            t = a[0]
            if t == "I":
                atoms.append((a, True, "immutable value"))
            elif t == "F":
                s = an.S(a[1])
                atoms.append((a, True, f"allocated in this call: {s.kind} at {s.file.split('/')[-1]}:{s.line}"))
            elif t in ("O", "S"):
                what = "field of self" if t == "O" else "self"
                if isinstance(sc.node, ast.Module) or cls is None:
                    atoms.append((a, False, f"{what} outside a class"))
                elif in_ctor(r["qual"], cls):
                    atoms.append((a, True, f"{what} inside the constructor of {cls}"))
                elif is_transient(an, pol, cls):
                    atoms.append((a, True, f"{what} of analysis object {cls} (not a published class)"))
                elif any(c in pol.declared_state for c in an.prog.family(cls)):
                    atoms.append((a, True, f"{what} of declared global-frame class {cls}"))
                else:
                    atoms.append((a, False, f"{what} of published/persistent class {cls} outside its constructor"))
            elif t == "G":
                if isinstance(sc.node, ast.Module):
                    atoms.append((a, True, "module initialisation"))
                elif (a[1], a[2]) in pol.declared_cache:
                    if guard_dominates(r):
                        atoms.append((a, True, f"declared cache {a[2]}, add-only store guarded by `not in`"))
                    else:
                        atoms.append((a, False, f"declared cache {a[2]} updated without a dominating `not in` guard"))
                else:
                    atoms.append((a, False, f"module-level object {a[2]} (not a declared cache)"))
            elif t == "P":
                atoms.append((a, False, f"parameter {a[1]} (caller's object)"))
            else:
                atoms.append((a, False, f"borrowed: {a[1]}"))
        if not atoms:
            atoms.append((("B", "no reaching definition"), False, "receiver has no reaching definition"))
        out.append(dict(id=oid, file=r["mod"].rel, qual=r["qual"], kind=kind, text=r["text"],
                        line=r["node"].lineno, atoms=atoms, rec=r))
    return out


def owns_param_obligations(an, files):
    out = []
    counters = {}
    for (rel, qual), params in an.cfg.owns_param.items():
        nd = an.funcs.get((rel, qual))
        if nd is None:
            out.append(dict(id=f"{rel}::{qual}::owns_param(target exists)#1", file=rel, qual=qual, kind="owns_param",
                            text=qual, line=0, atoms=[(("B", "?"), False, "annotated function not found")]))
            continue
        simple = qual.split(".")[-1]
        plist = [a.arg for a in nd.args.posonlyargs + nd.args.args]
        defaults = dict(zip(plist[len(plist) - len(nd.args.defaults):], nd.args.defaults))
        for p in params:
            d = defaults.get(p)
            if d is not None:
                ok = isinstance(d, ast.Constant)
                out.append(dict(id=f"{rel}::{qual}::owns_param({p} default immutable)#1", file=rel, qual=qual,
                                kind="owns_param", text=p, line=nd.lineno,
                                atoms=[(("I", "default"), ok, "default is a constant" if ok else "mutable default")]))
        for (mod, sc, call, name, args, kws) in an.call_args:
            if name != simple:
                continue
            # same module, or imported from the annotated module
            if mod.rel != rel:
                kind, tm, _ = an.prog.resolve_import(mod, name)
                if tm is None or tm.rel != rel:
                    continue
            if "." in qual and not (sc.qual + ".").startswith(qual.rsplit(".", 1)[0] + ".") and \
                    not isinstance(call.func, ast.Attribute):
                continue
            for p in params:
                i = plist.index(p)
                if isinstance(call.func, ast.Attribute) and plist and plist[0] == "self":
                    i -= 1
                av = args[i] if i < len(args) else kws.get(p)
                if av is None:
                    continue   # default used
                base = f"{mod.rel}::{sc.qual or '<module>'}::owns_param({qual}.{p})"
                n = counters[base] = counters.get(base, 0) + 1
                atoms = []
                for a in sorted(av):
                    if a[0] == "F":
                        atoms.append((a, True, "argument allocated in the caller"))
                    elif a[0] == "I":
                        atoms.append((a, True, "immutable / None"))
                    else:
                        atoms.append((a, False, f"argument is not owned by the caller: {a}"))
                out.append(dict(id=f"{base}#{n}", file=mod.rel, qual=sc.qual, kind="owns_param", text=p,
                                line=call.lineno, atoms=atoms or [(("B", "?"), False, "no value")]))
    return out


def discharge(obls):
    """Each obligation is a (tiny) propositional query: facts `owned_i <-> rule`,
    goal `and_i owned_i`; discharged iff facts /\\ not goal is unsat."""
    import z3
    t0 = time.time()
    slv = z3.Solver()
    for ob in obls:
        slv.push()
        vs = []
        for i, (a, ok, why) in enumerate(ob["atoms"]):
            v = z3.Bool(f"owned_{i}")
            slv.add(v == z3.BoolVal(bool(ok)))
            vs.append(v)
        slv.add(z3.Not(z3.And(*vs)) if vs else z3.BoolVal(True))
        r = slv.check()
        ob["status"] = "discharged" if r == z3.unsat else "refuted" if r == z3.sat else "unknown"
        slv.pop()
    return time.time() - t0
