"""setup_cmd: verifies that everything the checks need is present offline."""
import os, sys, subprocess
def main():
    import z3
    assert tuple(int(x) for x in z3.get_version_string().split(".")[:2]) >= (4, 8)
    sys.path.insert(0, os.path.dirname(os.path.dirname(os.path.abspath(__file__))))
    from pyvc.run import ensure_repo_on_path
    ensure_repo_on_path()
    import exo  # noqa
    from pyvc import sym as S
    # the solver answers, and proxies fork as expected
    ctx = S.Ctx(())
    S.set_ctx(ctx)
    x = ctx.fresh_int("x")
    assert ctx.prove((x + 1) > x, "sanity") is True
    assert ctx.prove(x > 0, "sanity-neg") is False
    S.set_ctx(None)
    # dependency probe (DESIGN 2.8(3)): ADT nodes are frozen, constructors copy lists
    from exo.core.LoopIR import LoopIR, T
    from exo.core.prelude import Sym, SrcInfo
    si = SrcInfo("probe", 0)
    idx = []
    r = LoopIR.Read(Sym("a"), idx, T.index, si)
    assert r.idx is not idx, "ADT constructors no longer copy list fields"
    try:
        r.name = Sym("b")
        raise SystemExit("ADT nodes are no longer frozen")
    except AttributeError:
        pass
    r2 = r.update(type=T.int)
    assert r2 is not r and r2.idx is not r.idx or r2.idx == r.idx
    print("pyvc selftest ok: z3", z3.get_version_string(), "python", sys.version.split()[0])
if __name__ == "__main__":
    main()
