"""Mutation self-test for the ownership / ordering engines (sub-engine D).

Like pyvc.mutate (scratch copy of /repo/src under /var/tmp, `./check PROP` with
VERIF_REPO pointing at it) but additionally
  * honours "expect": "missed" (harmless edits) and fails if such a mutant
    changes any obligation id or outcome (the obligation table of the mutated
    tree must be identical to the one of the unmutated tree),
  * runs several mutants concurrently.

usage: python -m pyvc.mutate_own C07|C18 [substring] [--base /path/to/repo-copy]
"""
from __future__ import annotations
import json, os, shutil, subprocess, sys, tempfile
from concurrent.futures import ThreadPoolExecutor

VERIF = os.path.dirname(os.path.dirname(os.path.abspath(__file__)))
MODS = {"C07": "contracts.c07_purity", "C18": "contracts.c18_determinism"}


def table(prop, root):
    code = (f"import sys, json; sys.path.insert(0, {VERIF!r}); import importlib; "
            f"m = importlib.import_module({MODS[prop]!r}); print(json.dumps(m.table({root!r})))")
    r = subprocess.run(["/venv/bin/python", "-c", code], capture_output=True, text=True,
                       env=dict(os.environ, VERIF_REPO=root, PYTHONDONTWRITEBYTECODE="1"))
    if r.returncode != 0:
        return {"<crash>": r.stderr[-400:]}
    return json.loads(r.stdout.strip().splitlines()[-1])


def run_one(prop, m, base, base_table):
    d = tempfile.mkdtemp(prefix="pyvc_mut_", dir="/var/tmp")
    try:
        shutil.copytree(os.path.join(base, "src"), os.path.join(d, "src"), ignore=shutil.ignore_patterns("__pycache__"))
        p = os.path.join(d, m["file"])
        s = open(p).read()
        n = s.count(m["old"])
        if n < 1 or (m.get("count", 1) == 1 and n != 1):
            return m["id"], "stale", f"pattern occurs {n} times", {}
        open(p, "w").write(s.replace(m["old"], m["new"]))
        env = dict(os.environ, VERIF_REPO=d, VERIF_EVIDENCE_DIR=os.path.join(d, "evidence"), PYTHONDONTWRITEBYTECODE="1")
        r = subprocess.run([os.path.join(VERIF, "check"), prop], env=env, capture_output=True, text=True, timeout=1800)
        st = {0: "missed", 1: "detected", 2: "undecided", 3: "crash"}.get(r.returncode, f"rc{r.returncode}")
        t = table(prop, d)
        diff = {k: (base_table.get(k), t.get(k)) for k in set(t) | set(base_table) if t.get(k) != base_table.get(k)}
        lines = [l for l in (r.stdout + r.stderr).splitlines() if l.startswith(("VIOLATION", "UNDECIDED", "CHECKER"))]
        return m["id"], st, " | ".join(lines)[:300], diff
    finally:
        shutil.rmtree(d, ignore_errors=True)


def main(argv):
    prop = argv[0]
    base = "/repo"
    if "--base" in argv:
        base = argv[argv.index("--base") + 1]
    only = next((a for a in argv[1:] if not a.startswith("--") and a != base), None)
    muts = json.load(open(os.path.join(VERIF, "mutants", f"{prop}.json")))
    if only:
        muts = [m for m in muts if only in m["id"]]
    base_table = table(prop, base)
    ok = True
    with ThreadPoolExecutor(4) as ex:
        futs = [ex.submit(run_one, prop, m, base, base_table) for m in muts]
        for m, f in zip(muts, futs):
            mid, st, out, diff = f.result()
            want = m.get("expect", "detected")
            good = st == want and (want != "missed" or not diff)
            ok &= good
            print(f"{mid:45s} {st:10s} expect={want:9s} {'OK ' if good else 'BAD'} changed-obligations={len(diff)}")
            for k, (a, b) in sorted(diff.items())[:4]:
                print(f"      {k}: {a} -> {b}")
            if not good:
                print("      " + out)
    print("ALL AS EXPECTED" if ok else "SOME MUTANTS NOT AS EXPECTED")
    return 0 if ok else 1


if __name__ == "__main__":
    sys.exit(main(sys.argv[1:]))
