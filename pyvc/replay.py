"""Concrete replay of a refuted obligation against the real code (DESIGN 5.3).

The counter-model of the solver (values of the symbolic leaves + the
structural choices of the path) is turned into concrete Python arguments by
running the contract's own input generator under a ConcreteCtx; the *real*
function is then called natively (CPython, no interpreter of ours involved) and
the violated clause is evaluated on the concrete values.
"""
from __future__ import annotations
import importlib, json, os, sys, traceback, types
from . import sym as S
from .sym import ConcreteCtx, PathInfeasible, Unsupported
from .contract import REGISTRY, Args, FRAME_LABEL, module_fingerprint, module_writes
from .run import G, ensure_repo_on_path, repo_root, load_target
from .interp import Interp, Policy, SourceIndex


def show(v, depth=0):
    try:
        if hasattr(v, "__dataclass_fields__"):
            return f"{type(v).__name__}(" + ", ".join(
                f"{k}={show(getattr(v, k), depth + 1)}" for k in v.__dataclass_fields__) + ")"
        if isinstance(v, (list, tuple)):
            s = ", ".join(show(x, depth + 1) for x in v)
            return f"[{s}]" if isinstance(v, list) else f"({s})"
        if isinstance(v, dict):
            return "{" + ", ".join(f"{show(k)}: {show(x)}" for k, x in v.items()) + "}"
        return str(v) if not isinstance(v, str) else repr(v)
    except Exception:
        return object.__repr__(v)


def concrete_search(c, values, choices, label, tries=300, seed=0):
    """Replay the solver's model; if the real code does not fail on it (the
    model may rely on the abstraction of a callee), search the same path shape
    (same structural choices) with random small leaf values for an input on
    which the real code does violate the clause."""
    import random
    st, text = concrete_run(c, values, choices, label)
    if st in ("confirmed", "not-replayable", "error"):
        return st, text, values
    rng = random.Random(seed)
    for k in range(tries):
        span = (2, 5, 12)[k % 3]
        ctxv = {}
        st2, text2 = concrete_run(c, ctxv, choices, label, rng=rng, span=span, record=ctxv)
        if st2 == "confirmed":
            return st2, text2 + f"\n(found by concrete search in the refuted path's shape, try {k})", ctxv
    return st, text, values


def concrete_run(c, values, choices, label, verbose=True, native=True, rng=None, span=6, record=None):
    """Returns ('confirmed'|'not-reproduced'|'precondition-false'|'error', text)."""
    ensure_repo_on_path()
    out = []
    ctx = ConcreteCtx(values=values, choices=choices, rng=rng, lo=-span, hi=span)
    old = S.set_ctx(ctx)
    try:
        g = G(ctx)
        it = Interp(Policy(), SourceIndex())
        kind, fn, rest = load_target(c, it, repo_root())
        if c.setup:
            c.setup(g)
        if kind == "nested" and getattr(c, "native_entry", None) is None:
            return "not-replayable", "nested target: no native entry point"
        if kind == "nested":
            g.ghost["outer"] = Args(**c.outer_inputs(g))
        argd = dict(c.gen(g)) if c.gen else {}
        ghost = argd.pop("__ghost__", {})
        a = Args(**argd)
        a.ghost = Args(**ghost)
        a.g = g
        out.append("inputs:")
        for k, v in argd.items():
            out.append(f"  {k} = {show(v)}")
        for k, v in ghost.items():
            out.append(f"  ghost {k} = {show(v)}")
        for p in c.pre:
            if not p(a):
                return "precondition-false", "\n".join(out)
        a.exc, a.result = None, None
        if record is not None:
            record.update(ctx.leaves)
        fp0 = module_fingerprint()
        try:
            if getattr(c, "native_entry", None) is not None:
                a.result = c.native_entry(g, fn, a)
            elif c.entry is not None:
                return "not-replayable", "custom entry without native_entry"
            else:
                pos = argd.pop("__args__", None)
                a.result = fn(*pos, **argd) if pos is not None else fn(**argd)
        except (Unsupported, PathInfeasible):
            raise
        except Exception as e:
            a.exc = e
        if label == FRAME_LABEL:
            w = [x for x in module_writes(fp0) if x not in c.modifies]
            out.append(f"module-level containers written by the call: {w}")
            return ("confirmed" if w else "not-reproduced"), "\n".join(out)
        if a.exc is None:
            out.append(f"real function returned: {show(a.result)}")
            for lab, f in c.post:
                if lab == label:
                    ok = bool(f(a))
                    out.append(f"clause '{lab}' evaluates to {ok}")
                    return ("not-reproduced" if ok else "confirmed"), "\n".join(out)
            if label.startswith("no ") and label.endswith(" exit"):
                return "not-reproduced", "\n".join(out)
        else:
            out.append(f"real function raised: {type(a.exc).__name__}: {a.exc}")
            if label.startswith("no ") and label.endswith(" exit"):
                allowed = any(isinstance(a.exc, e) for e, _, _ in c.exc_ok)
                out.append(f"exception allowed by contract: {allowed}")
                return ("not-reproduced" if allowed else "confirmed"), "\n".join(out)
            for exc, when, lab in c.exc_ok:
                if lab == label and isinstance(a.exc, exc) and when is not None:
                    ok = bool(when(a))
                    out.append(f"clause '{lab}' evaluates to {ok}")
                    return ("not-reproduced" if ok else "confirmed"), "\n".join(out)
            for lab, f in c.exc_post:
                if lab == label:
                    ok = bool(f(a))
                    out.append(f"clause '{lab}' evaluates to {ok}")
                    return ("not-reproduced" if ok else "confirmed"), "\n".join(out)
        return "not-reproduced", "\n".join(out) + f"\n(clause '{label}' not applicable to this exit)"
    except PathInfeasible:
        return "precondition-false", "\n".join(out)
    except Exception as e:
        return "error", "\n".join(out) + "\n" + "".join(traceback.format_exception(e))[-2000:]
    finally:
        if record is not None:
            record.update(ctx.leaves)
        S.set_ctx(old)


REPLAY_TEMPLATE = '''#!/venv/bin/python
"""Replay of a refuted obligation.  Generated by pyvc; run with /venv/bin/python.
exit 1 = the real code violates the clause on this input; exit 0 = it does not."""
import json, os, sys
sys.path.insert(0, {verif!r})
DATA = json.loads({data!r})
from pyvc.replay import main
sys.exit(main(DATA))
'''


def write_replay(path, data):
    os.makedirs(os.path.dirname(path), exist_ok=True)
    verif = os.path.dirname(os.path.dirname(os.path.abspath(__file__)))
    with open(path, "w") as f:
        f.write(REPLAY_TEMPLATE.format(verif=verif, data=json.dumps(data)))
    os.chmod(path, 0o755)


def main(data):
    ensure_repo_on_path()
    importlib.import_module(data["module"])
    c = REGISTRY[data["contract"]]
    print(f"property   : {data['property']}")
    print(f"function   : {data['contract']}")
    print(f"obligation : {data['label']}")
    print(f"solver     : {data.get('solver', '')}")
    if data.get("kind") == "custom":
        mod = importlib.import_module(data["module"])
        return getattr(mod, data["replay_fn"])(data)
    st, text = concrete_run(c, data.get("values", {}), data.get("choices", []), data["label"])
    print(text)
    print(f"verdict    : {st}")
    return 1 if st == "confirmed" else 0
