"""Symbolic heap fragment for pyvc: object references and identity-keyed maps
of unbounded size (DESIGN 2.3 "dict -> (domain array, value array)", 3/C11).

Everything here is additive: the core interpreter is not changed, a contract
opts in by using `heap_entry` as its `c.entry`.

* `SRef`     - a symbolic object reference (z3 constant of the uninterpreted
               sort `Ref`).  The only observations are identity (`is`,
               `is not`) and use as a key of a `SymMap`.
* `SymMap`   - an identity-keyed dictionary with an arbitrary (finite but
               unbounded) set of keys: (dom : Ref -> Bool, val : Ref -> Ref)
               as z3 arrays.  Supports `m[k]`, `m[k] = v`, `k in m`,
               `m.items()` (only as the iterable of a `for` loop with a cut).
               This is the model of `WeakKeyDictionary` keyed by objects whose
               hash is their identity (assumption listed by the contracts).
* `HeapInterp` - the AST interpreter plus: identity tests on `SRef`,
               `WeakKeyDictionary()` creating an empty `SymMap` on symbolic
               paths, and the cut rule for `for k, v in m.items()`:

                 visited := {}                    prove  Inv
                 havoc; assume Inv and visited <= dom(m)
                 either  pick k in dom(m) minus visited; k, v := k, m[k]; body;
                         visited += {k};          prove  Inv;  stop path
                 or      assume visited == dom(m); continue after the loop

               (a dict iteration visits every key exactly once and the dict
               must not be mutated meanwhile - the latter is checked).
"""
from __future__ import annotations
import ast, weakref
import z3
from . import sym as S
from .sym import SBool, Unsupported, PathEnd
from .interp import Interp, ProgExc, _Break, _Continue

Ref = z3.DeclareSort("Ref")
_DomSort = z3.ArraySort(Ref, z3.BoolSort())
_ValSort = z3.ArraySort(Ref, Ref)


class SRef:
    """A symbolic object reference."""
    __slots__ = ("t",)

    def __init__(self, t):
        self.t = t

    def _pyvc_identical(self, o):
        if isinstance(o, SRef):
            return S.mk(self.t == o.t)
        # references range over the objects of the modelled class only
        return False

    def __eq__(self, o):          # identity-hashed objects: == is `is`
        return self._pyvc_identical(o)

    def __ne__(self, o):
        return S.Not(self._pyvc_identical(o))

    def __hash__(self):
        raise Unsupported("symbolic reference hashed (used as key of a concrete container)")

    def __bool__(self):
        return True

    def __repr__(self):
        return f"SRef({self.t})"


def fresh_ref(ctx, name):
    ctx.nfresh += 1
    return SRef(z3.Const(ctx._leafname(name), Ref))


def ref_eq(x, y):
    """identity of two references, symbolic or concrete (never forks)"""
    if isinstance(x, SRef) or isinstance(y, SRef):
        if not (isinstance(x, SRef) and isinstance(y, SRef)):
            return False
        return S.mk(x.t == y.t)
    return x is y


def ref_ite(c, x, y):
    if isinstance(c, bool):
        return x if c else y
    return SRef(z3.If(S.liftb(c), x.t, y.t))


def forall_refs(n, f, name="u"):
    """symbolic: z3 ForAll over n fresh bound references.  f gets SRefs and
    must return a bool/SBool built without forking."""
    ctx = S.cur()
    k = ctx.ghost.get("__bound__", 0)
    ctx.ghost["__bound__"] = k + n
    xs = [z3.Const(f"{name}!b{k + i}", Ref) for i in range(n)]
    body = S.liftb(f(*[SRef(x) for x in xs]))
    return S.mk(z3.ForAll(xs, body))


class SymMap:
    """identity-keyed dict with symbolic key set"""

    def __init__(self, dom, val):
        self.dom = dom
        self.val = val
        self.version = 0

    @staticmethod
    def empty(ctx=None):
        ctx = ctx or S.cur()
        ctx.nfresh += 1
        return SymMap(z3.K(Ref, z3.BoolVal(False)),
                      z3.Const(ctx._leafname("map0"), _ValSort))

    @staticmethod
    def fresh(ctx, name, dom=None):
        ctx.nfresh += 1
        d = dom if dom is not None else z3.Const(ctx._leafname(name + "_dom"), _DomSort)
        return SymMap(d, z3.Const(ctx._leafname(name + "_val"), _ValSort))

    def havoc_vals(self, ctx=None, name="hv"):
        """forget the values, keep the key set (used by callee contracts and cuts)"""
        ctx = ctx or S.cur()
        ctx.nfresh += 1
        self.val = z3.Const(ctx._leafname(name + "_val"), _ValSort)
        self.version += 1

    def havoc_all(self, ctx=None, name="hv"):
        ctx = ctx or S.cur()
        ctx.nfresh += 1
        self.dom = z3.Const(ctx._leafname(name + "_dom"), _DomSort)
        self.val = z3.Const(ctx._leafname(name + "_val"), _ValSort)
        self.version += 1

    # -- specification-side accessors (no forking, no KeyError)
    def has(self, k):
        return S.mk(z3.Select(self.dom, k.t))

    def get(self, k):
        return SRef(z3.Select(self.val, k.t))

    # -- program-side operations
    def _key(self, k):
        if not isinstance(k, SRef):
            raise Unsupported(f"SymMap keyed by a non-reference {type(k).__name__}")
        return k

    def __contains__(self, k):
        return self.has(self._key(k))        # operator.contains -> bool() -> fork

    def __getitem__(self, k):
        k = self._key(k)
        if not S.cur().branch(S.liftb(self.has(k))):
            raise KeyError(k)
        return self.get(k)

    def __setitem__(self, k, v):
        k = self._key(k)
        if not isinstance(v, SRef):
            raise Unsupported("SymMap value is not a reference")
        self.dom = z3.Store(self.dom, k.t, z3.BoolVal(True))
        self.val = z3.Store(self.val, k.t, v.t)
        self.version += 1

    def items(self):
        return SymItems(self)

    def __iter__(self):
        raise Unsupported("iteration over a symbolic map outside a for-loop cut")

    def __len__(self):
        raise Unsupported("len() of a symbolic map")

    def __repr__(self):
        return f"<SymMap v{self.version}>"


class SymItems:
    def __init__(self, m):
        self.m = m

    def __iter__(self):
        raise Unsupported("items() of a symbolic map outside a for-loop cut")


class Visited:
    """ghost set of the keys already produced by a dict iteration"""
    def __init__(self, arr):
        self.arr = arr

    def has(self, k):
        return S.mk(z3.Select(self.arr, k.t))


class HeapInterp(Interp):
    def identical(self, a, b):
        if isinstance(a, SRef):
            return a._pyvc_identical(b)
        if isinstance(b, SRef):
            return b._pyvc_identical(a)
        return super().identical(a, b)

    def instantiate(self, cls, args, kwargs):
        if cls is weakref.WeakKeyDictionary and not S.cur().concrete and not args and not kwargs:
            return SymMap.empty()
        return super().instantiate(cls, args, kwargs)

    def x_For(self, st, frame):
        it = self.ev(st.iter, frame)
        if not isinstance(it, SymItems):
            # re-evaluating st.iter would repeat side effects: inline the
            # remainder of Interp.x_For on the value we already have
            cut = self.policy.on_loop(self, st, frame)
            if cut is not None:
                return cut(self, st, frame, it)
            broke = False
            for x in self.iterate(it):
                self.assign(st.target, x, frame)
                try:
                    self.exec_block(st.body, frame)
                except _Break:
                    broke = True
                    break
                except _Continue:
                    continue
            if not broke:
                self.exec_block(st.orelse, frame)
            return
        return self.cut_items_loop(st, frame, it.m)

    def _loop_spec(self, st, frame):
        from .run import _owner, _EnvView
        f = frame
        while f is not None and f.func is None:
            f = f.parent
        if f is None:
            return None, None
        q = f.func.__qualname__.replace(".<locals>", "")
        loops = [n for n in ast.walk(f.func.node) if isinstance(n, (ast.For, ast.While))
                 and _owner(f.func.node, n)]
        loops.sort(key=lambda n: (n.lineno, n.col_offset))
        k = loops.index(st)
        c = getattr(self.policy, "c", None)
        spec = c.loops.get((q, k)) if c is not None else None
        return spec, f"{q}#loop{k}"

    def cut_items_loop(self, st, frame, m):
        from .run import _EnvView, G
        spec, name = self._loop_spec(st, frame)
        if spec is None:
            raise Unsupported(f"for loop over a symbolic map at line {st.lineno} needs an invariant")
        ctx = S.cur()
        env = _EnvView(frame)
        frame.vars["_pyvc_map"] = m
        frame.vars["_pyvc_visited"] = Visited(z3.K(Ref, z3.BoolVal(False)))
        ctx.prove(spec.invariant(env), f"{name}: invariant holds on entry")
        g = G(ctx)
        ctx.ghost["loop_env"] = env       # havoc generators may need the locals
        for nm, gen in spec.havoc.items():
            frame.store(nm, gen(g))
        ctx.nfresh += 1
        V = z3.Const(ctx._leafname("visited"), _DomSort)
        frame.vars["_pyvc_visited"] = Visited(V)
        x = z3.Const("x!vis", Ref)
        ctx.assume(S.mk(z3.ForAll([x], z3.Implies(z3.Select(V, x), z3.Select(m.dom, x)))))
        ctx.assume(spec.invariant(env))
        if ctx.choose(2, name) == 0:
            k = fresh_ref(ctx, "iterkey")
            ctx.assume(S.And(m.has(k), S.Not(S.mk(z3.Select(V, k.t)))))
            ver = m.version
            self.assign(st.target, (k, m.get(k)), frame)
            try:
                self.exec_block(st.body, frame)
            except _Break:
                raise Unsupported("break inside a cut for loop")
            except _Continue:
                pass
            if m.version != ver:
                raise ProgExc(RuntimeError("dictionary changed size during iteration"))
            frame.vars["_pyvc_visited"] = Visited(z3.Store(V, k.t, z3.BoolVal(True)))
            ctx.prove(spec.invariant(env), f"{name}: invariant preserved")
            raise PathEnd()
        ctx.assume(S.mk(z3.ForAll([x], z3.Implies(z3.Select(m.dom, x), z3.Select(V, x)))))
        self.exec_block(st.orelse, frame)


class _NoCuts:
    """policy view without loop cuts (concrete cross-check / replay runs)"""
    def __init__(self, pol):
        self._pol = pol

    def __getattr__(self, k):
        return getattr(self._pol, k)

    def on_loop(self, interp, node, frame):
        return None


def heap_entry(positional=None):
    """`c.entry` that runs the target under a HeapInterp (same policy, same
    source index, so callee contracts and while-loop cuts keep working)."""
    def entry(g, it, fn, a):
        pol = it.policy
        if S.cur().concrete:
            pol = _NoCuts(pol)        # concrete runs execute loops, they do not cut them
        hi = HeapInterp(pol, it.src)
        argd = {k: v for k, v in a.__dict__.items()
                if k not in ("ghost", "g", "exc", "result")}
        try:
            return hi.call(fn, [], argd)
        finally:
            it.calls.extend(hi.calls)
    return entry
