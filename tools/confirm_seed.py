#!/venv/bin/python
"""Confirm a seeded change in a scratch worktree: it applies, the demo fails
with it and passes without it, and the repository's test-suite outcome is the
same as the baseline (stable_pass all pass).  Writes <seed>/confirm.json."""
import json, os, subprocess, sys, xml.etree.ElementTree as ET
seed = os.path.abspath(sys.argv[1])
wt = "/tmp/wt_confirm_" + os.path.basename(seed)
base = json.load(open("/root/.vp/BASELINE.json"))
stable = set(base["stable_pass"])
def sh(cmd, **kw):
    return subprocess.run(cmd, shell=True, capture_output=True, text=True, **kw)
sh(f"git -C /repo worktree remove --force {wt}")
r = sh(f"git -C /repo worktree add {wt} HEAD")
assert r.returncode == 0, r.stderr
out = {"seed": os.path.basename(seed)}
try:
    patch = os.path.join(seed, "patch_rebased.diff")
    if not os.path.exists(patch):
        patch = os.path.join(seed, "patch.diff")
    env = dict(os.environ, PYTHONPATH=f"{wt}/src")
    r0 = sh(f"/venv/bin/python {seed}/demo.py", env=env, cwd=wt)
    out["demo_without_change_rc"] = r0.returncode
    r = sh(f"git -C {wt} apply {patch}")
    out["applies"] = r.returncode == 0
    out["patch"] = os.path.basename(patch)
    if r.returncode == 0:
        r1 = sh(f"/venv/bin/python {seed}/demo.py", env=env, cwd=wt)
        out["demo_with_change_rc"] = r1.returncode
        xml = f"/tmp/confirm_{os.path.basename(seed)}.xml"
        n = os.environ.get("NPROC", "6")
        rt = sh(f"/venv/bin/python -m pytest -q -p no:cacheprovider -n {n} --timeout=900 --junitxml={xml}", env=env, cwd=wt)
        passed = set()
        for tc in ET.parse(xml).getroot().iter("testcase"):
            if not any(ch.tag in ("failure", "error", "skipped") for ch in tc):
                passed.add(f"{tc.get('classname')}::{tc.get('name')}")
        missing = sorted(stable - passed)
        out["suite"] = {"passed": len(passed), "stable_pass_baseline": len(stable), "stable_now_failing": missing[:20]}
        out["suite_ok"] = not missing
    out["confirmed"] = bool(out.get("applies") and out.get("demo_without_change_rc") == 0
                            and out.get("demo_with_change_rc") not in (0, None) and out.get("suite_ok"))
finally:
    sh(f"git -C /repo worktree remove --force {wt}")
json.dump(out, open(os.path.join(seed, "confirm.json"), "w"), indent=1)
print(json.dumps(out))
