#!/bin/bash
# usage: tools/check_seed.sh <seed dir> <PROP> [extra check args]
# Runs ./check PROP against a scratch copy of /repo/src with the seeded patch applied.
seed=$(realpath "$1"); prop=$2; shift 2
d=$(mktemp -d /var/tmp/seedchk_XXXX)
cp -r /repo/src "$d/src"; find "$d" -name __pycache__ -prune -exec rm -rf {} + 2>/dev/null
p="$seed/patch_rebased.diff"; [ -f "$p" ] || p="$seed/patch.diff"
(cd "$d" && patch -s -p1 < "$p") || { echo "patch failed"; rm -rf "$d"; exit 9; }
VERIF_REPO="$d" VERIF_EVIDENCE_DIR="$d/evidence" /verif/check "$prop" "$@" 2>&1 | grep -E "^\[|^VIOLATION|^KNOWN|^CHECKER" | cut -c1-230 | sed "s#$d#<scratch>#g"
rc=${PIPESTATUS[0]}
rm -rf "$d"
echo "exit=$rc"
