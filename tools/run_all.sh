#!/bin/bash
# Runs every claimed check (quick tier) on /repo, validates evidence files against the schema.
cd /verif
ids=$(/venv/bin/python -c "import json;print(' '.join(c['property_id'] for c in json.load(open('MANIFEST.json'))['checks']))")
rc_all=0
for id in $ids; do
  out=$(./check $id --tier quick ${WRITE_BASELINE:+--write-baseline} 2>&1); rc=$?
  echo "$out" | grep -E "^\[|^VIOLATION|^KNOWN|^CHECKER|^UNDECIDED" | cut -c1-200 | head -4
  echo "  -> $id exit=$rc"
  [ $rc -ne 0 ] && rc_all=1
done
python3-vt - <<'PY'
import json, jsonschema, glob
sch = json.load(open('/root/.vp/EVIDENCE.schema.json'))
m = json.load(open('/verif/MANIFEST.json'))
jsonschema.validate(m, json.load(open('/root/.vp/MANIFEST.schema.json')))
for c in m['checks']:
    e = json.load(open(c['evidence_file']))
    jsonschema.validate(e, sch)
    cov = e['coverage']
    assert cov['obligations'] == cov['discharged'], (c['property_id'], cov['obligations'], cov['discharged'])
print("manifest + evidence valid for", len(m['checks']), "checks")
PY
exit $rc_all
